(* BeamCantilever.v — C10: the exact Euler-Bernoulli cantilever deflections and rotations, taken AT THE NODES, satisfy every
   equilibrium equation of the assembled stiffness matrix, for ANY number of collinear elements of ANY (unequal) lengths,
   with the clamp at the first node or at the last node (the layout of a symmetric half wing).  Together with
   C10_free_dofs_in_equilibrium / C10_root_is_clamped (what every solution of the augmented system satisfies) this is the
   nodal exactness the property states.  Element matrices: the textbook frame element in the beam's own frame (the code's
   element is that element: C10_element_is_textbook_frame_element; its frame is orthonormal: C10_direction_cosines_orthonormal). *)
From Coq Require Import Reals ZArith Lra Lia Arith Bool List.
From OAS Require Import Scalar Rops Sums Beam FrameElement BeamProofs.
Open Scope R_scope.

(* a window of a sum: f vanishes outside [a, a + w) *)
Lemma rsum_window n a w f : (a + w <= n)%nat -> (forall i, (i < n)%nat -> (i < a \/ a + w <= i)%nat -> f i = 0) ->
  rsum n f = rsum w (fun t => f (a + t)%nat).
Proof.
  intros Hle H0. replace n with (a + (w + (n - a - w)))%nat by lia.
  rewrite rsum_split, rsum_split.
  rewrite (rsum_zero a) by (intros i Hi; apply H0; lia).
  rewrite (rsum_zero (n - a - w)) by (intros i Hi; apply H0; lia). lra.
Qed.

Lemma in_elem_false e a : e <> a -> S e <> a -> in_elem e a = false.
Proof. intros H1 H2. unfold in_elem. apply orb_false_iff; split; apply Nat.eqb_neq; assumption. Qed.
Lemma in_elem_left e : in_elem e e = true.
Proof. unfold in_elem. rewrite Nat.eqb_refl. reflexivity. Qed.
Lemma in_elem_right e : in_elem e (S e) = true.
Proof. unfold in_elem. rewrite Nat.eqb_refl. apply orb_true_r. Qed.

Section Assembly.
  Variables (ne : nat) (kl : nat -> nat -> nat -> R) (u : nat -> R).
  (* the product of row (6a + r) of the assembled matrix with u is the sum of the two adjacent elements' end forces *)
  Definition end_force (e p : nat) : R := rsum 12 (fun t => kl e p t * u (6 * e + t)%nat).

  Lemma assembled_row a r : (a <= ne)%nat -> (r < 6)%nat ->
    rsum (6 * S ne) (fun q => assembled ne kl a r (q / 6) (q mod 6) * u q)
    = (if (0 <? a)%nat then end_force (a - 1) (6 + r) else 0) + (if (a <? ne)%nat then end_force a r else 0).
  Proof.
    intros Ha Hr. unfold assembled; rops.
    (* pull the element sum outside *)
    rewrite (rsum_ext _ _ (fun q => rsum ne (fun e => (if (in_elem e a && in_elem e (q / 6))%bool then kl e (6 * (a - e) + r) (6 * (q / 6 - e) + q mod 6) else 0) * u q))).
    2:{ intros q Hq. rewrite <- rsum_scal_r. reflexivity. }
    rewrite rsum_exchange.
    (* per element: zero unless e = a - 1 or e = a; then a window of 12 columns *)
    assert (Hel : forall e, (e < ne)%nat ->
      rsum (6 * S ne) (fun q => (if (in_elem e a && in_elem e (q / 6))%bool then kl e (6 * (a - e) + r) (6 * (q / 6 - e) + q mod 6) else 0) * u q)
      = if in_elem e a then end_force e (6 * (a - e) + r) else 0).
    { intros e He. destruct (in_elem e a) eqn:Ea.
      - rewrite (rsum_window _ (6 * e) 12); [ | lia | ].
        2:{ intros q Hq Hout. replace (in_elem e (q / 6)) with false; [cbn; lra|].
            symmetry; unfold in_elem; apply orb_false_iff.
            pose proof (Nat.div_mod q 6 ltac:(lia)). pose proof (Nat.mod_upper_bound q 6 ltac:(lia)).
            split; apply Nat.eqb_neq; intros Hc; lia. }
        unfold end_force. apply rsum_ext; intros t Ht.
        assert (Hd : ((6 * e + t) / 6 = e + t / 6)%nat).
        { replace (6 * e + t)%nat with (t + e * 6)%nat by lia. rewrite Nat.div_add by lia. lia. }
        assert (Hm : ((6 * e + t) mod 6 = t mod 6)%nat).
        { replace (6 * e + t)%nat with (t + e * 6)%nat by lia. apply Nat.mod_add; lia. }
        rewrite Hd, Hm.
        assert (Hin : in_elem e (e + t / 6) = true).
        { unfold in_elem. apply orb_true_iff. assert (t / 6 = 0 \/ t / 6 = 1)%nat as [H0|H1].
          { assert (t / 6 < 2)%nat by (apply Nat.div_lt_upper_bound; lia). lia. }
          - left. apply Nat.eqb_eq. lia.
          - right. apply Nat.eqb_eq. lia. }
        rewrite Hin. cbn [andb]. f_equal. f_equal.
        pose proof (Nat.div_mod t 6 ltac:(lia)). lia.
      - apply rsum_zero; intros q Hq. cbn [andb]. lra. }
    rewrite (rsum_ext _ _ (fun e => if in_elem e a then end_force e (6 * (a - e) + r) else 0)) by exact Hel.
    (* the two elements adjacent to node a *)
    clear Hel.
    destruct a as [|a'].
    - (* node 0: only element 0 *)
      cbn [Nat.ltb Nat.leb]. destruct ne as [|ne']; [cbn; lra|].
      replace (0 <? S ne')%nat with true by (symmetry; apply Nat.ltb_lt; lia).
      rewrite (rsum_single _ 0%nat); [ | lia | intros i Hi Hne; rewrite in_elem_false by lia; reflexivity ].
      rewrite in_elem_left. cbn [Nat.sub Nat.mul Nat.add]. lra.
    - replace (0 <? S a')%nat with true by reflexivity.
      destruct (Nat.ltb_spec (S a') ne) as [Hlt|Hge].
      + (* interior node: elements a' and a'+1 *)
        replace ne with (S (S a') + (ne - S (S a')))%nat at 1 by lia.
        rewrite rsum_split, !rsum_S.
        rewrite (rsum_zero a') by (intros i Hi; rewrite in_elem_false by lia; reflexivity).
        rewrite (rsum_zero (ne - S (S a'))) by (intros i Hi; rewrite in_elem_false by lia; reflexivity).
        rewrite in_elem_right, in_elem_left.
        replace (S a' - 1)%nat with a' by lia.
        replace (6 * (S a' - a') + r)%nat with (6 + r)%nat by lia. replace (6 * (S a' - S a') + r)%nat with r by lia. lra.
      + (* the tip: element a' only *)
        assert (ne = S a') by lia. subst ne. rewrite rsum_S.
        rewrite (rsum_zero a') by (intros i Hi; rewrite in_elem_false by lia; reflexivity).
        rewrite in_elem_right.
        replace (S a' - 1)%nat with a' by lia. replace (6 * (S a' - a') + r)%nat with (6 + r)%nat by lia. lra.
  Qed.
End Assembly.

(* ---------- a straight cantilever of any number of elements, bending in the local x-z plane ---------- *)
Section Cantilever.
  Variables (ne : nat) (x : nat -> R) (E G A J Iy Iz P : R).
  Hypotheses (HE : E <> 0) (HI : Iy <> 0).
  Hypothesis Hx : forall e, (e < ne)%nat -> x (S e) - x e <> 0.
  Let s (n : nat) : R := x n - x 0%nat.            (* abscissa of node n along the beam *)
  Let Lt : R := s ne.
  Definition kl (e : nat) := frame_element E G A J Iy Iz (x (S e) - x e).

  (* clamped at node 0, force P at the last node:  w = P s^2 (3 L - s) / 6 E I,  rotation = - w' *)
  Definition cw0 (t : R) : R := P * (t * t) * (3 * Lt - t) / (6 * E * Iy).
  Definition cr0 (t : R) : R := - (P * t * (2 * Lt - t) / (2 * E * Iy)).
  (* clamped at the last node, force P at node 0 (the layout of a symmetric half wing: tip first, root last) *)
  Definition cw1 (t : R) : R := P * ((Lt - t) * (Lt - t)) * (2 * Lt + t) / (6 * E * Iy).
  Definition cr1 (t : R) : R := P * (Lt * Lt - t * t) / (2 * E * Iy).
  Definition cu (rootlast : bool) (p : nat) : R :=
    match (p mod 6)%nat with
    | 2%nat => if rootlast then cw1 (s (p / 6)) else cw0 (s (p / 6))
    | 4%nat => if rootlast then cr1 (s (p / 6)) else cr0 (s (p / 6))
    | _ => 0
    end.

  Lemma cu_at rl e t : (t < 12)%nat ->
    cu rl (6 * e + t) = match t with
                        | 2%nat => if rl then cw1 (s e) else cw0 (s e)
                        | 4%nat => if rl then cr1 (s e) else cr0 (s e)
                        | 8%nat => if rl then cw1 (s (S e)) else cw0 (s (S e))
                        | 10%nat => if rl then cr1 (s (S e)) else cr0 (s (S e))
                        | _ => 0 end.
  Proof.
    intros Ht. unfold cu. replace (6 * e + t)%nat with (t + e * 6)%nat by lia.
    rewrite Nat.mod_add, Nat.div_add by lia.
    do 12 (destruct t as [|t]; [cbn [Nat.modulo Nat.div Nat.divmod fst snd Nat.sub Nat.add]; try reflexivity; try (replace (1 + e)%nat with (S e) by lia; reflexivity)|]).
    lia.
  Qed.

  Lemma cantilever_end_force rl e p : (e < ne)%nat -> (p < 12)%nat ->
    end_force kl (cu rl) e p =
      if rl then match p with 2%nat => P | 4%nat => P * s e | 8%nat => - P | 10%nat => - (P * s (S e)) | _ => 0 end
      else match p with 2%nat => - P | 4%nat => P * (Lt - s e) | 8%nat => P | 10%nat => - (P * (Lt - s (S e))) | _ => 0 end.
  Proof.
    intros He Hp. pose proof (Hx e He) as HL. unfold end_force. cbn [sumn]; rops.
    rewrite !(cu_at rl e) by lia. unfold kl.
    assert (Hs : s (S e) = s e + (x (S e) - x e)) by (unfold s; ring).
    do 12 (destruct p as [|p]; [unfold frame_element, rnth2, bend_xz, bend_xy, pair_sign;
      cbn [Nat.eqb Nat.add Nat.sub Nat.mul Nat.div Nat.modulo Nat.divmod fst snd nth];
      destruct rl; unfold cw0, cr0, cw1, cr1; rewrite ?Hs; field; repeat split; assumption|]).
    lia.
  Qed.

  (* the exact Euler-Bernoulli deflections and rotations AT THE NODES satisfy every equilibrium equation of the assembled
     system, for any number of elements of any (unequal) lengths *)
  Theorem cantilever_nodal_exact (rl : bool) a r : (a <= ne)%nat -> (r < 6)%nat ->
    a <> (if rl then ne else 0%nat) ->
    rsum (6 * S ne) (fun q => assembled ne kl a r (q / 6) (q mod 6) * cu rl q)
    = if ((a =? (if rl then 0 else ne))%nat && (r =? 2)%nat)%bool then P else 0.
  Proof.
    intros Ha Hr Hroot. rewrite assembled_row by assumption.
    destruct (Nat.ltb_spec 0 a) as [H0|H0]; destruct (Nat.ltb_spec a ne) as [H1|H1].
    - (* interior node *)
      rewrite !cantilever_end_force by lia.
      replace (S (a - 1)) with a by lia.
      replace (a =? (if rl then 0 else ne))%nat with false by (symmetry; apply Nat.eqb_neq; destruct rl; lia).
      cbn [andb]. destruct r as [|[|[|[|[|[|r]]]]]]; [..|lia]; destruct rl; cbn [Nat.add]; lra.
    - (* last node *)
      assert (a = ne) by lia. subst a. destruct rl; [contradiction|].
      rewrite cantilever_end_force by lia. replace (S (ne - 1)) with ne by lia. rewrite Nat.eqb_refl.
      destruct r as [|[|[|[|[|[|r]]]]]]; [..|lia]; cbn [Nat.add Nat.eqb andb]; unfold Lt; lra.
    - (* node 0 *)
      assert (a = 0%nat) by lia. subst a. destruct rl; [|contradiction].
      rewrite cantilever_end_force by lia. rewrite Nat.eqb_refl.
      destruct r as [|[|[|[|[|[|r]]]]]]; [..|lia]; cbn [Nat.add Nat.eqb andb]; unfold s; try lra; replace (x 0%nat - x 0%nat) with 0 by ring; lra.
    - destruct rl; lia.
  Qed.

  (* ... and the clamped node does not move *)
  Lemma cantilever_root_fixed rl r : (r < 6)%nat -> cu rl (6 * (if rl then ne else 0) + r) = 0.
  Proof.
    intros Hr. unfold cu. replace (6 * (if rl then ne else 0) + r)%nat with (r + (if rl then ne else 0%nat) * 6)%nat by lia.
    rewrite Nat.mod_add, Nat.div_add by lia. rewrite Nat.mod_small, Nat.div_small by lia. cbn [Nat.add].
    destruct r as [|[|[|[|[|r]]]]]; try reflexivity; destruct rl; unfold cw0, cr0, cw1, cr1, Lt, s.
    - field; split; assumption.
    - replace (x 0%nat - x 0%nat) with 0 by ring. field; split; assumption.
    - field; split; assumption.
    - replace (x 0%nat - x 0%nat) with 0 by ring. field; split; assumption.
  Qed.
End Cantilever.

(* C04, structure: the rows of the assembled stiffness matrix that belong to the nodes of the LEFT half of a full-span
   beam (nodes 0 .. ne-1; node ne is the clamped centre) are, entry for entry, the rows of the half-span beam of the same
   elements (clamped at its last node ne) - whatever lies to the right of the centre.  Hence a displacement field that
   vanishes at the centre satisfies the left-half equilibrium equations of the full model iff its restriction satisfies
   those of the half model: with the same loads on the modelled half, half and full models have the same displacements
   there (uniqueness of the solution is the usual hypothesis). *)
Section HalfFull.
  Variables (ne nf : nat) (kh kf : nat -> nat -> nat -> R) (uh uf : nat -> R).
  Hypothesis Hn : (ne <= nf)%nat.
  Hypothesis Hk : forall e p q, (e < ne)%nat -> kf e p q = kh e p q.
  Hypothesis Hu : forall q, (q < 6 * S ne)%nat -> uf q = uh q.

  Lemma end_force_eq e p : (e < ne)%nat -> end_force kf uf e p = end_force kh uh e p.
  Proof.
    intros He. unfold end_force. apply rsum_ext; intros t Ht. rewrite Hk by exact He. rewrite Hu by lia. reflexivity.
  Qed.

  Theorem full_left_rows_are_half_rows a r : (a < ne)%nat -> (r < 6)%nat ->
    rsum (6 * S nf) (fun q => assembled nf kf a r (q / 6) (q mod 6) * uf q)
    = rsum (6 * S ne) (fun q => assembled ne kh a r (q / 6) (q mod 6) * uh q).
  Proof.
    intros Ha Hr. rewrite !assembled_row by lia.
    replace (a <? nf)%nat with true by (symmetry; apply Nat.ltb_lt; lia).
    replace (a <? ne)%nat with true by (symmetry; apply Nat.ltb_lt; lia).
    rewrite (end_force_eq a r) by lia.
    destruct (Nat.ltb_spec 0 a) as [H0|H0]; [rewrite (end_force_eq (a - 1) (6 + r)) by lia|]; reflexivity.
  Qed.
End HalfFull.

(* C07, structure: mirror image of a beam about the plane y = 0 with the node order reversed.  sg r is the sign with which
   DOF r of a node (ux, uy, uz, rx, ry, rz) changes under the reflection; sw exchanges the two nodes of an element. *)
Definition sg (r : nat) : R := if Nat.even r then 1 else -1.
Definition sw (p : nat) : nat := if (p <? 6)%nat then (p + 6)%nat else (p - 6)%nat.

Lemma rsum12_swap (f : nat -> R) : rsum 12 f = rsum 12 (fun t => f (sw t)).
Proof.
  change 12%nat with (6 + 6)%nat. rewrite !rsum_split.
  rewrite (rsum_ext 6 (fun t => f (sw t)) (fun t => f (6 + t)%nat)).
  2:{ intros t Ht. unfold sw. replace (t <? 6)%nat with true by (symmetry; apply Nat.ltb_lt; lia). f_equal; lia. }
  rewrite (rsum_ext 6 (fun i => f (sw (6 + i))) f).
  2:{ intros t Ht. unfold sw. replace (6 + t <? 6)%nat with false by (symmetry; apply Nat.ltb_ge; lia). f_equal; lia. }
  apply Rplus_comm.
Qed.

Lemma sg_sq r : sg r * sg r = 1.
Proof. unfold sg. destruct (Nat.even r); lra. Qed.
Lemma sg_add6 r : sg (6 + r) = sg r.
Proof. unfold sg. replace (6 + r)%nat with (S (S (S (S (S (S r)))))) by lia. rewrite !Nat.even_succ_succ. reflexivity. Qed.
Lemma sg_mod6 t : sg (t mod 6) = sg t.
Proof.
  unfold sg. rewrite (Nat.div_mod t 6) at 2 by lia.
  rewrite Nat.even_add, Nat.even_mul. cbn [Nat.even orb]. destruct (Nat.even (t mod 6)); reflexivity.
Qed.

Section MirrorFEM.
  Variables (ne : nat) (k k' : nat -> nat -> nat -> R) (u : nat -> R).
  (* element-level covariance (the hypothesis): the matrix of the mirrored element ne-1-e is that of element e with its
     two nodes exchanged and the reflected DOFs' signs applied on both sides *)
  Hypothesis Hk : forall e p q, (e < ne)%nat -> (p < 12)%nat -> (q < 12)%nat ->
    k' (ne - 1 - e)%nat p q = sg p * sg q * k e (sw p) (sw q).
  (* the mirrored displacement field *)
  Definition um (q : nat) : R := sg (q mod 6) * u (6 * (ne - q / 6) + q mod 6)%nat.

  Lemma end_force_mirror e p : (e < ne)%nat -> (p < 12)%nat ->
    end_force k' um (ne - 1 - e) p = sg p * end_force k u e (sw p).
  Proof.
    intros He Hp. unfold end_force.
    rewrite (rsum12_swap (fun t => k e (sw p) t * u (6 * e + t)%nat)).
    rewrite <- rsum_scal. apply rsum_ext; intros t Ht.
    rewrite Hk by assumption. unfold um.
    assert (Hd : ((6 * (ne - 1 - e) + t) / 6 = (ne - 1 - e) + t / 6)%nat).
    { replace (6 * (ne - 1 - e) + t)%nat with (t + (ne - 1 - e) * 6)%nat by lia. rewrite Nat.div_add by lia. lia. }
    assert (Hm : ((6 * (ne - 1 - e) + t) mod 6 = t mod 6)%nat).
    { replace (6 * (ne - 1 - e) + t)%nat with (t + (ne - 1 - e) * 6)%nat by lia. apply Nat.mod_add; lia. }
    rewrite Hd, Hm, sg_mod6.
    assert (Hi : (6 * (ne - (ne - 1 - e + t / 6)) + t mod 6 = 6 * e + sw t)%nat).
    { unfold sw. destruct (Nat.ltb_spec t 6) as [H6|H6].
      - rewrite Nat.div_small, Nat.mod_small by lia. lia.
      - assert (t / 6 = 1)%nat by (symmetry; apply Nat.div_unique with (t - 6)%nat; lia).
        assert (t mod 6 = t - 6)%nat by (symmetry; apply Nat.mod_unique with 1%nat; lia). lia. }
    rewrite Hi. set (K := k e (sw p) (sw t)). set (U := u (6 * e + sw t)%nat).
    replace (sg p * sg t * K * (sg t * U)) with (sg p * (sg t * sg t) * (K * U)) by ring. rewrite sg_sq. ring.
  Qed.

  (* system level: every row of the mirrored beam's assembled matrix, applied to the mirrored displacements, is the
     reflected row of the original beam applied to the original displacements: forces and moments are reflected *)
  Theorem assembled_mirror a r : (a <= ne)%nat -> (r < 6)%nat ->
    rsum (6 * S ne) (fun q => assembled ne k' (ne - a) r (q / 6) (q mod 6) * um q)
    = sg r * rsum (6 * S ne) (fun q => assembled ne k a r (q / 6) (q mod 6) * u q).
  Proof.
    intros Ha Hr. rewrite !assembled_row by lia.
    assert (E1 : (a < ne)%nat -> end_force k' um (ne - a - 1) (6 + r) = sg r * end_force k u a r).
    { intros H. replace (ne - a - 1)%nat with (ne - 1 - a)%nat by lia. rewrite end_force_mirror by lia.
      unfold sw. replace (6 + r <? 6)%nat with false by (symmetry; apply Nat.ltb_ge; lia).
      rewrite sg_add6. replace (6 + r - 6)%nat with r by lia. reflexivity. }
    assert (E2 : (0 < a)%nat -> end_force k' um (ne - a) r = sg r * end_force k u (a - 1) (6 + r)).
    { intros H. replace (ne - a)%nat with (ne - 1 - (a - 1))%nat by lia. rewrite end_force_mirror by lia.
      unfold sw. replace (r <? 6)%nat with true by (symmetry; apply Nat.ltb_lt; lia).
      replace (r + 6)%nat with (6 + r)%nat by lia. reflexivity. }
    destruct (Nat.ltb_spec 0 (ne - a)) as [H1|H1]; destruct (Nat.ltb_spec (ne - a) ne) as [H2|H2];
      destruct (Nat.ltb_spec 0 a) as [H3|H3]; destruct (Nat.ltb_spec a ne) as [H4|H4]; try lia;
      rewrite ?E1, ?E2 by lia; ring.
  Qed.
End MirrorFEM.
