(* WiringLoops.v — C12: in the data-flow graphs of the canonical AerostructPoint models every feedback (every connection
   that lies on a cycle of components) is inside the coupled group, which is the group the nonlinear solver iterates:
   nothing computed after the loop is fed back into it, nothing inside the loop escapes the solver.  And the loop is the
   expected one: deformed mesh -> aerodynamic states -> sectional forces -> load transfer -> structure -> displacements ->
   deformed mesh.  Decided by computation on the reviewed graphs (tied to the live problems by the wiring ties). *)
From Coq Require Import String List Bool Arith Ascii.
From OAS Require Import WiringReviewed.
Import ListNotations.
Open Scope string_scope.

(* component of a variable path: the path without its last dotted segment *)
Fixpoint comp_aux (acc cur s : string) : string :=
  match s with
  | EmptyString => acc
  | String c r => if Ascii.eqb c "."%char then comp_aux (if String.eqb acc "" then cur else acc ++ "." ++ cur) "" r
                  else comp_aux acc (cur ++ String c EmptyString) r
  end.
Definition comp_of (s : string) : string := comp_aux "" "" s.

Definition sedges (g : list (string * string)) : list (string * string) :=
  map (fun c => (comp_of (snd c), comp_of (fst c))) g.          (* source component -> target component *)
Definition smem (x : string) (l : list string) : bool := existsb (String.eqb x) l.
Definition nodes_of (E : list (string * string)) : list string :=
  fold_left (fun a e => let a1 := if smem (fst e) a then a else fst e :: a in if smem (snd e) a1 then a1 else snd e :: a1) E [].
Fixpoint index_of (x : string) (l : list string) (k : nat) : nat :=
  match l with [] => k | y :: r => if String.eqb x y then k else index_of x r (S k) end.
(* the graph over component numbers *)
Definition nedges (N : list string) (E : list (string * string)) : list (nat * nat) :=
  map (fun e => (index_of (fst e) N 0, index_of (snd e) N 0)) E.
Definition succs (E : list (nat * nat)) (u : nat) : list nat := map snd (filter (fun e => Nat.eqb (fst e) u) E).
Definition mem (x : nat) (l : list nat) : bool := existsb (Nat.eqb x) l.
(* breadth-first: only the frontier is expanded; fuel = number of components bounds the number of rounds *)
Fixpoint closure (fuel : nat) (E : list (nat * nat)) (seen frontier : list nat) : list nat :=
  match fuel with
  | O => seen
  | S f => let cand := flat_map (succs E) frontier in
           let fresh := fold_left (fun a x => if mem x seen || mem x a then a else x :: a) cand [] in
           match fresh with [] => seen | _ => closure f E ((fresh ++ seen)%list) fresh end
  end.
(* components reachable from u in one or more steps *)
Definition reach (n : nat) (E : list (nat * nat)) (u : nat) : list nat :=
  let s0 := fold_left (fun a x => if mem x a then a else x :: a) (succs E u) [] in closure n E s0 s0.
Definition on_cycle (n : nat) (E : list (nat * nat)) (e : nat * nat) : bool := mem (fst e) (reach n E (snd e)).

Definition model (name : string) : list (string * string) :=
  match find (fun m => String.eqb (fst m) name) reviewed_wiring with Some m => snd m | None => [] end.
Definition aerostruct_models : list string :=
  map fst (filter (fun m => prefix "AerostructPoint" (fst m)) reviewed_wiring).

Definition inside (N : list string) (u : nat) : bool := prefix "AS_point_0.coupled." (nth u N "").
Definition feedback_inside_coupled (name : string) : bool :=
  let SE := sedges (model name) in let N := nodes_of SE in let E := nedges N SE in let n := List.length N in
  forallb (fun e => negb (on_cycle n E e) || (inside N (fst e) && inside N (snd e))) E.
Definition has_feedback (name : string) : bool :=
  let SE := sedges (model name) in let N := nodes_of SE in let E := nedges N SE in let n := List.length N in
  existsb (on_cycle n E) E.
(* the expected loop, surface "wing" *)
Definition loop_present (name : string) : bool :=
  let SE := sedges (model name) in let N := nodes_of SE in let E := nedges N SE in let n := List.length N in
  let ix := fun s => index_of s N 0 in
  let r := reach n E (ix "AS_point_0.coupled.wing.def_mesh.displacement_transfer") in
  smem "AS_point_0.coupled.wing.def_mesh.displacement_transfer" N &&
  mem (ix "AS_point_0.coupled.aero_states.solve_matrix") r && mem (ix "AS_point_0.coupled.aero_states.panel_forces_surf") r &&
  mem (ix "AS_point_0.coupled.wing_loads") r && mem (ix "AS_point_0.coupled.wing.struct_states.fem") r &&
  mem (ix "AS_point_0.coupled.wing.def_mesh.displacement_transfer") r.

Theorem aerostruct_feedback_is_inside_the_coupled_group :
  forallb (fun n => feedback_inside_coupled n && has_feedback n && loop_present n) aerostruct_models = true /\
  List.length aerostruct_models = 6%nat.
Proof. vm_compute. split; reflexivity. Qed.
