(* MeshProofs.v — generated meshes are well-formed, ordered and consistent between half and full (C14). *)
From Coq Require Import Reals ZArith Lra Lia Arith Bool.
From OAS Require Import Scalar Rops Sums MeshGen.
Open Scope R_scope.

Lemma onat_INR k : @onat R Rops k = INR k.
Proof. unfold onat; rops. symmetry. apply INR_IZR_INZ. Qed.

(* np.linspace: affine in the index, hits both ends *)
Lemma linspace_eq a b n k : (2 <= n)%nat -> (k < n)%nat ->
  linspace a b n k = a + INR k * ((b - a) / INR (n - 1)).
Proof.
  intros Hn Hk. unfold linspace. rewrite !onat_INR. rops.
  destruct (Nat.eqb_spec (S k) n) as [E|E]; [|reflexivity].
  replace (n - 1)%nat with k by lia. assert (0 < INR k) by (apply lt_0_INR; lia). field. lra.
Qed.
Lemma linspace_first a b n : (2 <= n)%nat -> linspace a b n 0 = a.
Proof. intros Hn. rewrite linspace_eq by lia. simpl. ring. Qed.
Lemma linspace_last a b n : (2 <= n)%nat -> linspace a b n (n - 1) = b.
Proof. intros Hn. unfold linspace. replace (S (n - 1) =? n)%nat with true by (symmetry; apply Nat.eqb_eq; lia). reflexivity. Qed.
Lemma linspace_incr a b n k k' : (2 <= n)%nat -> a < b -> (k < k')%nat -> (k' < n)%nat ->
  linspace a b n k < linspace a b n k'.
Proof.
  intros Hn Hab Hk Hk'. rewrite !linspace_eq by lia.
  assert (0 < INR (n - 1)) by (apply lt_0_INR; lia).
  assert (0 < (b - a) / INR (n - 1)) by (apply Rdiv_lt_0_compat; lra).
  assert (INR k < INR k') by (apply lt_INR; exact Hk). nra.
Qed.
Lemma linspace_range a b n k : (2 <= n)%nat -> a <= b -> (k < n)%nat -> a <= linspace a b n k <= b.
Proof.
  intros Hn Hab Hk. rewrite linspace_eq by lia.
  assert (Hd : 0 < INR (n - 1)) by (apply lt_0_INR; lia).
  assert (0 <= INR k) by apply pos_INR.
  assert (INR k <= INR (n - 1)) by (apply le_INR; lia).
  assert (Hq : 0 <= (b - a) / INR (n - 1)) by (apply Rmult_le_pos; [lra | left; apply Rinv_0_lt_compat, Hd]).
  split; [nra|].
  assert (INR k * ((b - a) / INR (n - 1)) <= INR (n - 1) * ((b - a) / INR (n - 1))) by (apply Rmult_le_compat_r; assumption).
  replace (INR (n - 1) * ((b - a) / INR (n - 1))) with (b - a) in H1 by (field; lra). lra.
Qed.

(* ---------------- rectangular wing ---------------- *)
Section Rect.
  Variables (num_x h : nat) (span chord scs ccs : R).
  Hypothesis Hh : (1 <= h)%nat.
  Hypothesis Hnx : (2 <= num_x)%nat.
  Hypothesis Hspan : 0 < span. Hypothesis Hchord : 0 < chord.
  Hypothesis Hs : 0 <= scs <= 1. Hypothesis Hc : 0 <= ccs <= 1.

  Lemma scs_not_2 : Reqb scs 2 = false.
  Proof. apply Reqb_false. lra. Qed.

  Lemma half_wing_eq k : (k <= h)%nat ->
    half_wing h scs k = 1 / 2 * cos (linspace 0 (PI / 2) (S h) k) * scs + (1 - scs) * linspace 0 (1 / 2) (S h) (h - k).
  Proof. intros Hk. unfold half_wing, half_uniform, ny2, ohalf, ofrac, o2. rops. rewrite scs_not_2. reflexivity. Qed.

  Lemma half_wing_0 : half_wing h scs 0 = 1 / 2.
  Proof.
    rewrite half_wing_eq by lia. rewrite linspace_first by lia. rewrite cos_0.
    replace (h - 0)%nat with (S h - 1)%nat by lia. rewrite linspace_last by lia. field.
  Qed.
  Lemma half_wing_h : half_wing h scs h = 0.
  Proof.
    rewrite half_wing_eq by lia. replace h with (S h - 1)%nat at 2 by lia. rewrite linspace_last by lia. rewrite cos_PI2.
    replace (h - h)%nat with 0%nat by lia. rewrite linspace_first by lia. ring.
  Qed.
  Lemma half_wing_decr k k' : (k < k')%nat -> (k' <= h)%nat -> half_wing h scs k' < half_wing h scs k.
  Proof.
    intros Hk Hk'. rewrite !half_wing_eq by lia.
    pose proof PI_RGT_0 as Hpi.
    assert (Hb : linspace 0 (PI / 2) (S h) k < linspace 0 (PI / 2) (S h) k') by (apply linspace_incr; try lia; lra).
    pose proof (linspace_range 0 (PI / 2) (S h) k ltac:(lia) ltac:(lra) ltac:(lia)) as [R1 R2].
    pose proof (linspace_range 0 (PI / 2) (S h) k' ltac:(lia) ltac:(lra) ltac:(lia)) as [R3 R4].
    assert (Hcos : cos (linspace 0 (PI / 2) (S h) k') < cos (linspace 0 (PI / 2) (S h) k)) by (apply cos_decreasing_1; lra).
    assert (Hu : linspace 0 (1 / 2) (S h) (h - k') < linspace 0 (1 / 2) (S h) (h - k)) by (apply linspace_incr; try lia; lra).
    set (c := cos (linspace 0 (PI / 2) (S h) k)) in *. set (c' := cos (linspace 0 (PI / 2) (S h) k')) in *.
    set (u := linspace 0 (1 / 2) (S h) (h - k)) in *. set (u' := linspace 0 (1 / 2) (S h) (h - k')) in *.
    assert (A1 : 0 <= scs * (c - c')) by (apply Rmult_le_pos; lra).
    assert (A2 : 0 <= (1 - scs) * (u - u')) by (apply Rmult_le_pos; lra).
    destruct (Rle_dec scs (1 / 2)) as [Hle|Hgt].
    - assert (1 / 2 * (u - u') <= (1 - scs) * (u - u')) by (apply Rmult_le_compat_r; lra). nra.
    - assert (1 / 2 * (c - c') <= scs * (c - c')) by (apply Rmult_le_compat_r; lra). nra.
  Qed.

  (* extents, mirror symmetry, strict spanwise ordering *)
  Lemma rect_y_first : rect_y h span scs 0 = - (span / 2).
  Proof. unfold rect_y. replace (0 <? h)%nat with true by (symmetry; apply Nat.ltb_lt; lia). rops. rewrite half_wing_0. field. Qed.
  Lemma rect_y_last : rect_y h span scs (2 * h) = span / 2.
  Proof.
    unfold rect_y. replace (2 * h <? h)%nat with false by (symmetry; apply Nat.ltb_ge; lia).
    replace (2 * h - 2 * h)%nat with 0%nat by lia. rops. rewrite half_wing_0. field.
  Qed.
  Lemma rect_y_mirror j : (j <= 2 * h)%nat -> rect_y h span scs (2 * h - j) = - rect_y h span scs j.
  Proof.
    intros Hj. unfold rect_y. rops.
    destruct (Nat.ltb_spec j h) as [H1|H1]; destruct (Nat.ltb_spec (2 * h - j) h) as [H2|H2]; try lia.
    - replace (2 * h - (2 * h - j))%nat with j by lia. ring.
    - replace (2 * h - j)%nat with (2 * h - (2 * h - (2 * h - j)))%nat by lia. replace (2 * h - (2 * h - j))%nat with j by lia. ring.
    - assert (j = h) by lia. subst j. replace (2 * h - h)%nat with h by lia. replace (2 * h - h)%nat with h by lia.
      rewrite half_wing_h. ring.
  Qed.
  Lemma rect_y_root_on_plane : rect_y h span scs h = 0.
  Proof.
    unfold rect_y. rewrite Nat.ltb_irrefl. replace (2 * h - h)%nat with h by lia. rops. rewrite half_wing_h. ring.
  Qed.
  Lemma rect_y_incr j j' : (j < j')%nat -> (j' <= 2 * h)%nat -> rect_y h span scs j < rect_y h span scs j'.
  Proof.
    intros Hj Hj'. unfold rect_y. rops.
    assert (Hpos : forall k, (k <= h)%nat -> 0 <= half_wing h scs k).
    { intros k Hk. destruct (Nat.eq_dec k h) as [->|Hne]; [rewrite half_wing_h; lra|].
      left. rewrite <- half_wing_h. apply half_wing_decr; lia. }
    destruct (Nat.ltb_spec j h) as [H1|H1]; destruct (Nat.ltb_spec j' h) as [H2|H2]; try lia.
    - pose proof (half_wing_decr j j' Hj ltac:(lia)). nra.
    - assert (0 < half_wing h scs j) by (rewrite <- half_wing_h; apply half_wing_decr; lia).
      pose proof (Hpos (2 * h - j')%nat ltac:(lia)). nra.
    - pose proof (half_wing_decr (2 * h - j') (2 * h - j) ltac:(lia) ltac:(lia)). nra.
  Qed.

  (* chordwise *)
  Lemma rect_x_eq i : (i < num_x)%nat ->
    rect_x num_x chord ccs i
    = (1 / 2 * (1 - cos (linspace 0 PI num_x i)) * ccs + (1 - ccs) * linspace 0 1 num_x i) * chord.
  Proof. intros Hi. unfold rect_x, ohalf, ofrac. rops. reflexivity. Qed.
  Lemma rect_x_first : rect_x num_x chord ccs 0 = 0.
  Proof. rewrite rect_x_eq by lia. rewrite !linspace_first by lia. rewrite cos_0. ring. Qed.
  Lemma rect_x_last : rect_x num_x chord ccs (num_x - 1) = chord.
  Proof. rewrite rect_x_eq by lia. rewrite !linspace_last by lia. rewrite cos_PI. field. Qed.
  Lemma rect_x_incr i i' : (i < i')%nat -> (i' < num_x)%nat -> rect_x num_x chord ccs i < rect_x num_x chord ccs i'.
  Proof.
    intros Hi Hi'. rewrite !rect_x_eq by lia. pose proof PI_RGT_0 as Hpi.
    assert (Hb : linspace 0 PI num_x i < linspace 0 PI num_x i') by (apply linspace_incr; try lia; lra).
    pose proof (linspace_range 0 PI num_x i ltac:(lia) ltac:(lra) ltac:(lia)) as [R1 R2].
    pose proof (linspace_range 0 PI num_x i' ltac:(lia) ltac:(lra) ltac:(lia)) as [R3 R4].
    assert (Hcos : cos (linspace 0 PI num_x i') < cos (linspace 0 PI num_x i)) by (apply cos_decreasing_1; lra).
    assert (Hu : linspace 0 1 num_x i < linspace 0 1 num_x i') by (apply linspace_incr; try lia; lra).
    set (c := cos (linspace 0 PI num_x i)) in *. set (c' := cos (linspace 0 PI num_x i')) in *.
    set (u := linspace 0 1 num_x i) in *. set (u' := linspace 0 1 num_x i') in *.
    assert (A1 : 0 <= ccs * (c - c')) by (apply Rmult_le_pos; lra).
    assert (A2 : 0 <= (1 - ccs) * (u' - u)) by (apply Rmult_le_pos; lra).
    assert (1 / 2 * (1 - c) * ccs + (1 - ccs) * u < 1 / 2 * (1 - c') * ccs + (1 - ccs) * u').
    { destruct (Rle_dec ccs (1 / 2)) as [Hle|Hgt].
      - assert (1 / 2 * (u' - u) <= (1 - ccs) * (u' - u)) by (apply Rmult_le_compat_r; lra). nra.
      - assert (1 / 2 * (c - c') <= ccs * (c - c')) by (apply Rmult_le_compat_r; lra). nra. }
    apply Rmult_lt_compat_r; assumption.
  Qed.
End Rect.

(* offsets are pure translations *)
Lemma offset_is_translation (off : nat -> R) (m : nat -> nat -> nat -> R) i j d : with_offset off m i j d - m i j d = off d.
Proof. unfold with_offset; rops. ring. Qed.

(* mirroring the symmetric half back reproduces a mirror-symmetric full mesh node for node *)
Lemma getFullMesh_of_left_half npy (full : nat -> nat -> nat -> R) i j d : (d < 3)%nat -> (j <= 2 * npy)%nat ->
  (forall j' d', (j' <= 2 * npy)%nat -> (d' < 3)%nat -> full i (2 * npy - j')%nat d' = (if (d' =? 1)%nat then - full i j' d' else full i j' d')) ->
  full_from_left npy full i j d = full i j d.
Proof.
  intros Hd Hj Hsym. unfold full_from_left, flipy_g. rops.
  destruct (Nat.leb_spec j npy); [reflexivity|].
  rewrite (Hsym j d Hj Hd). destruct (d =? 1)%nat; ring.
Qed.

(* ---------------- multi-section wings: adjacent sections share an edge ---------------- *)
Lemma sec_x_at_root_gen nx (root : @Edge R) (s : @Sec R) i : sec_x nx root s i (e_y root) = linspace (e_le root) (e_te root) nx i.
Proof. unfold sec_x. rops. unfold Rdiv. ring. Qed.

Section Sections.
  Variables (nx : nat) (root : @Edge R) (s : @Sec R).
  Hypothesis Hnx : (2 <= nx)%nat.
  Hypothesis Hb : s_span s <> 0.
  Let tip := sec_tip nx root s.

  (* the outboard edge of the section is the straight line from tip_le to tip_te *)
  Lemma sec_x_at_tip i : (i < nx)%nat ->
    sec_x nx root s i (e_y root - s_span s)
    = if Reqb (e_le tip) (e_te tip) then e_le tip else linspace (e_le tip) (e_te tip) nx i.
  Proof.
    intros Hi. unfold sec_x. fold tip. rops. destruct (Reqb (e_le tip) (e_te tip)); field; exact Hb.
  Qed.
  Lemma sec_x_at_root i : sec_x nx root s i (e_y root) = linspace (e_le root) (e_te root) nx i.
  Proof. unfold sec_x. rops. unfold Rdiv. ring. Qed.

  (* with a non-negative tip chord the edge the code reads back for the next section is exactly the tip edge *)
  Hypothesis Hchord : e_te tip <= e_le tip.
  Lemma next_edge_is_tip :
    e_le (next_edge nx root s) = e_le tip /\ e_te (next_edge nx root s) = e_te tip /\ e_y (next_edge nx root s) = e_y tip.
  Proof.
    unfold next_edge. cbn [e_le e_te e_y]. rops. rewrite !sec_x_at_tip by lia.
    destruct (Reqb (e_le tip) (e_te tip)) eqn:E.
    - apply Reqb_true in E. rewrite E. replace (e_te tip - e_te tip) with 0 by ring. rewrite Rabs_R0.
      repeat split; try ring; try (unfold tip, sec_tip; cbn [e_y]; rops; reflexivity).
    - rewrite linspace_first, linspace_last by lia. rewrite Rabs_right by lra.
      repeat split; try ring; try (unfold tip, sec_tip; cbn [e_y]; rops; reflexivity).
  Qed.

  (* coincident edges: the next section's root edge is this section's tip edge, point for point *)
  Lemma sections_join (s' : @Sec R) i : (i < nx)%nat ->
    sec_x nx (next_edge nx root s) s' i (e_y (next_edge nx root s)) = sec_x nx root s i (e_y root - s_span s).
  Proof.
    intros Hi. rewrite sec_x_at_root_gen, sec_x_at_tip by exact Hi.
    destruct next_edge_is_tip as [E1 [E2 _]]. rewrite E1, E2.
    destruct (Reqb (e_le tip) (e_te tip)) eqn:E; [|reflexivity].
    apply Reqb_true in E. rewrite E. unfold linspace. rops. destruct (S i =? nx)%nat; [reflexivity|]. unfold Rdiv. ring.
  Qed.
End Sections.

(* the asymmetric branch as written: at its own tip station y = root_y + b the section is NOT on the tip
   line it computed (slope taken over b/2): it overshoots to root + 2 (tip - root) *)
Lemma sections_join_asym_refuted nx (root : @Edge R) (s : @Sec R) i : s_span s <> 0 ->
  let root_c := Rabs (e_le root - e_te root) in
  let tip_le := e_le root + s_span s * tan (s_sweep s) in let tip_te := tip_le - root_c * s_taper s in
  let rx := linspace (e_le root) (e_te root) nx i in
  let tx := if Reqb tip_le tip_te then tip_le else linspace tip_le tip_te nx i in
  sec_x_right_as_written nx root s i (e_y root + s_span s) = rx + 2 * (tx - rx) /\
  (tx <> rx -> sec_x_right_as_written nx root s i (e_y root + s_span s) <> tx).
Proof.
  intros Hb root_c tip_le tip_te rx tx.
  assert (E : sec_x_right_as_written nx root s i (e_y root + s_span s) = rx + 2 * (tx - rx)).
  { unfold sec_x_right_as_written, o2. rops. fold root_c tip_le tip_te rx. fold tx. field. exact Hb. }
  split; [exact E|]. intros Hne. rewrite E. intro F. apply Hne. lra.
Qed.

(* ---------------- the repaired asymmetric branch: sections right of the root join as well ---------------- *)
Lemma sec_x_right_at_root_gen nx (root : @Edge R) (s : @Sec R) i : sec_x_right nx root s i (e_y root) = linspace (e_le root) (e_te root) nx i.
Proof. unfold sec_x_right. rops. unfold Rdiv. ring. Qed.
Section RightSections.
  Variables (nx : nat) (root : @Edge R) (s : @Sec R).
  Hypothesis Hnx : (2 <= nx)%nat.
  Hypothesis Hb : s_span s <> 0.
  Let tip := sec_tip_right nx root s.
  Lemma sec_x_right_at_tip i : (i < nx)%nat ->
    sec_x_right nx root s i (e_y root + s_span s) = if Reqb (e_le tip) (e_te tip) then e_le tip else linspace (e_le tip) (e_te tip) nx i.
  Proof. intros Hi. unfold sec_x_right. fold tip. rops. destruct (Reqb (e_le tip) (e_te tip)); field; exact Hb. Qed.
  Hypothesis Hchord : e_te tip <= e_le tip.
  Lemma next_edge_right_is_tip :
    e_le (next_edge_right nx root s) = e_le tip /\ e_te (next_edge_right nx root s) = e_te tip /\ e_y (next_edge_right nx root s) = e_y tip.
  Proof.
    unfold next_edge_right. cbn [e_le e_te e_y]. rops. rewrite !sec_x_right_at_tip by lia.
    destruct (Reqb (e_le tip) (e_te tip)) eqn:E.
    - apply Reqb_true in E. rewrite E. replace (e_te tip - e_te tip) with 0 by ring. rewrite Rabs_R0.
      repeat split; try ring; try (unfold tip, sec_tip_right; cbn [e_y]; rops; reflexivity).
    - rewrite linspace_first, linspace_last by lia. rewrite Rabs_right by lra.
      repeat split; try ring; try (unfold tip, sec_tip_right; cbn [e_y]; rops; reflexivity).
  Qed.
  Lemma sections_join_right (s' : @Sec R) i : (i < nx)%nat ->
    sec_x_right nx (next_edge_right nx root s) s' i (e_y (next_edge_right nx root s)) = sec_x_right nx root s i (e_y root + s_span s).
  Proof.
    intros Hi. rewrite sec_x_right_at_root_gen, sec_x_right_at_tip by exact Hi.
    destruct next_edge_right_is_tip as [E1 [E2 _]]. rewrite E1, E2.
    destruct (Reqb (e_le tip) (e_te tip)) eqn:E; [|reflexivity].
    apply Reqb_true in E. rewrite E. unfold linspace. rops. destruct (S i =? nx)%nat; [reflexivity|]. unfold Rdiv. ring.
  Qed.
End RightSections.
