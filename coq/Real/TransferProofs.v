(* TransferProofs.v — conservation and rigid-motion lemmas for the transfer models (C11). *)
From Coq Require Import Reals ZArith Lra Lia Arith.
From OAS Require Import Scalar Rops Sums Transfer.
Open Scope R_scope.

(* node sums re-organised as panel sums *)
Lemma node_to_panel n (A B : nat -> R) :
  rsum (S n) (fun j => iff0 (j <? n) (A j) + iff0 (0 <? j) (B (j - 1)%nat))
  = rsum n (fun j => A j + B j).
Proof.
  rewrite rsum_plus, (rsum_plus n).
  f_equal.
  - rewrite rsum_S. rewrite Nat.ltb_irrefl. unfold iff0 at 2. rewrite Rplus_0_r.
    apply rsum_ext; intros i Hi. apply Nat.ltb_lt in Hi. rewrite Hi. reflexivity.
  - rewrite rsum_shift. cbn [Nat.ltb Nat.leb iff0]. rewrite Rplus_0_l.
    apply rsum_ext; intros i Hi. cbn [Nat.ltb Nat.leb iff0 Nat.sub]. rewrite Nat.sub_0_r. reflexivity.
Qed.

Section LT.
  Variables (npx npy : nat) (w1 w2 : R).
  Variable mesh : nat -> nat -> nat -> R.
  Variable F : nat -> nat -> nat -> R.

  Lemma lt_force_conserved d :
    rsum (S npy) (fun j => lt_force npx npy F j d)
    = rsum npx (fun i => rsum npy (fun j => F i j d)).
  Proof.
    unfold lt_force. rops.
    rewrite (node_to_panel npy (fun j => lt_hs npx F j d) (fun j => lt_hs npx F j d)).
    rewrite rsum_exchange. apply rsum_ext; intros j Hj.
    unfold lt_hs, ohalf, ofrac; rops. lra.
  Qed.

  (* total moment about an arbitrary point p *)
  Lemma lt_moment_conserved (p : nat -> R) d : (d < 3)%nat ->
    rsum (S npy) (fun j =>
        cross (vsub (lt_spts npx w2 mesh j) p) (lt_force npx npy F j) d
        + lt_moment npx npy w1 w2 mesh F j d)
    = rsum npx (fun i => rsum npy (fun j =>
        cross (vsub (lt_apts w1 mesh i j) p) (F i j) d)).
  Proof.
    intros Hd.
    set (A := fun j => cross (vsub (lt_spts npx w2 mesh j) p) (lt_hs npx F j) d
                       + lt_min npx w1 w2 mesh F j d).
    set (B := fun j => cross (vsub (lt_spts npx w2 mesh (S j)) p) (lt_hs npx F j) d
                       + lt_mout npx w1 w2 mesh F j d).
    transitivity (rsum (S npy) (fun j => iff0 (j <? npy) (A j) + iff0 (0 <? j) (B (j - 1)%nat))).
    { apply rsum_ext; intros j Hj. unfold lt_force, lt_moment, A, B. rops.
      destruct j as [|j'].
      - replace (0 <? 0) with false by reflexivity. destruct (0 <? npy);
          unfold iff0, cross, mk3, vsub; rops;
          destruct d as [|[|[|d]]]; try lia; ring.
      - replace (S j' - 1)%nat with j' by lia.
        replace (0 <? S j') with true by reflexivity.
        destruct (S j' <? npy); unfold iff0, cross, mk3, vsub; rops;
          destruct d as [|[|[|d]]]; try lia; ring. }
    rewrite node_to_panel. rewrite rsum_exchange.
    apply rsum_ext; intros j Hj.
    unfold A, B, lt_min, lt_mout, lt_hs, cross, mk3, vsub, vscal, ohalf, ofrac. rops.
    destruct d as [|[|[|d]]]; try lia;
      repeat rewrite <- rsum_scal; repeat rewrite <- rsum_minus; repeat rewrite <- rsum_plus;
      apply rsum_ext; intros i Hi; field.
  Qed.
End LT.
