(* TransferProofs.v — conservation and rigid-motion lemmas for the transfer models (C11). *)
From Coq Require Import Reals ZArith Lra Lia Arith.
From OAS Require Import Scalar Rops Sums Transfer Constants.
Open Scope R_scope.

Section LT.
  Variables (npx npy : nat) (w1 w2 : R).
  Variable mesh : nat -> nat -> nat -> R.
  Variable F : nat -> nat -> nat -> R.

  Lemma lt_force_conserved d :
    rsum (S npy) (fun j => lt_force npx npy F j d)
    = rsum npx (fun i => rsum npy (fun j => F i j d)).
  Proof.
    unfold lt_force. rops.
    rewrite (node_to_panel npy (fun j => lt_hs npx F j d) (fun j => lt_hs npx F j d)).
    rewrite rsum_exchange. apply rsum_ext; intros j Hj.
    unfold lt_hs, ohalf, ofrac; rops. lra.
  Qed.

  (* total moment about an arbitrary point p *)
  Lemma lt_moment_conserved (p : nat -> R) d : (d < 3)%nat ->
    rsum (S npy) (fun j =>
        cross (vsub (lt_spts npx w2 mesh j) p) (lt_force npx npy F j) d
        + lt_moment npx npy w1 w2 mesh F j d)
    = rsum npx (fun i => rsum npy (fun j =>
        cross (vsub (lt_apts w1 mesh i j) p) (F i j) d)).
  Proof.
    intros Hd.
    set (A := fun j => cross (vsub (lt_spts npx w2 mesh j) p) (lt_hs npx F j) d
                       + lt_min npx w1 w2 mesh F j d).
    set (B := fun j => cross (vsub (lt_spts npx w2 mesh (S j)) p) (lt_hs npx F j) d
                       + lt_mout npx w1 w2 mesh F j d).
    transitivity (rsum (S npy) (fun j => iff0 (j <? npy) (A j) + iff0 (0 <? j) (B (j - 1)%nat))).
    { apply rsum_ext; intros j Hj. unfold lt_force, lt_moment, A, B. rops.
      destruct j as [|j'].
      - replace (0 <? 0) with false by reflexivity. destruct (0 <? npy);
          unfold iff0, cross, mk3, vsub; rops;
          destruct d as [|[|[|d]]]; try lia; ring.
      - replace (S j' - 1)%nat with j' by lia.
        replace (0 <? S j') with true by reflexivity.
        destruct (S j' <? npy); unfold iff0, cross, mk3, vsub; rops;
          destruct d as [|[|[|d]]]; try lia; ring. }
    rewrite node_to_panel. rewrite rsum_exchange.
    apply rsum_ext; intros j Hj.
    unfold A, B, lt_min, lt_mout, lt_hs, cross, mk3, vsub, vscal, ohalf, ofrac. rops.
    destruct d as [|[|[|d]]]; try lia;
      repeat rewrite <- rsum_scal; repeat rewrite <- rsum_minus; repeat rewrite <- rsum_plus;
      apply rsum_ext; intros i Hi; field.
  Qed.
End LT.

(* ---------------- MeshPointForces ---------------- *)
Lemma iff0_rsum b n f : iff0 b (rsum n f) = rsum n (fun j => iff0 b (f j)).
Proof. destruct b; unfold iff0; rops; [reflexivity|]. symmetry; apply rsum_zero; reflexivity. Qed.

(* a quantity scattered from panels to their four corner nodes with node weights X:
   summing over nodes equals summing the four weighted contributions over panels *)
Lemma grid_scatter n m (X A B C D : nat -> nat -> R) :
  rsum (S n) (fun i => rsum (S m) (fun j => X i j *
      ( iff0 ((i <? n) && (j <? m)) (A i j)
      + iff0 ((0 <? i) && (j <? m)) (B (i - 1)%nat j)
      + iff0 ((0 <? i) && (0 <? j)) (C (i - 1)%nat (j - 1)%nat)
      + iff0 ((i <? n) && (0 <? j)) (D i (j - 1)%nat))))
  = rsum n (fun i => rsum m (fun j =>
      X i j * A i j + X (S i) j * B i j + X (S i) (S j) * C i j + X i (S j) * D i j)).
Proof.
  set (P := fun i j => X i j * A i j). set (Q := fun i j => X i (S j) * D i j).
  set (U := fun i j => X (S i) j * B i j). set (V := fun i j => X (S i) (S j) * C i j).
  transitivity (rsum (S n) (fun i =>
       iff0 (i <? n) (rsum m (fun j => P i j + Q i j))
     + iff0 (0 <? i) (rsum m (fun j => U (i - 1)%nat j + V (i - 1)%nat j)))).
  { apply rsum_ext; intros i Hi.
    rewrite <- (node_to_panel m (P i) (Q i)), <- (node_to_panel m (U (i-1)%nat) (V (i-1)%nat)).
    rewrite !iff0_rsum, <- rsum_plus. apply rsum_ext; intros j Hj.
    unfold P, Q, U, V.
    destruct i as [|i'], j as [|j'].
    - replace (0 <? 0) with false by reflexivity. destruct (0 <? n), (0 <? m); unfold iff0; cbn [andb]; rops; ring.
    - replace (0 <? 0) with false by reflexivity. replace (0 <? S j') with true by reflexivity.
      replace (S j' - 1)%nat with j' by lia.
      destruct (0 <? n), (S j' <? m); unfold iff0; cbn [andb]; rops; ring.
    - replace (0 <? 0) with false by reflexivity. replace (0 <? S i') with true by reflexivity.
      replace (S i' - 1)%nat with i' by lia.
      destruct (S i' <? n), (0 <? m); unfold iff0; cbn [andb]; rops; ring.
    - replace (0 <? S i') with true by reflexivity. replace (0 <? S j') with true by reflexivity.
      replace (S i' - 1)%nat with i' by lia. replace (S j' - 1)%nat with j' by lia.
      destruct (S i' <? n), (S j' <? m); unfold iff0; cbn [andb]; rops; ring. }
  rewrite (node_to_panel n (fun i => rsum m (fun j => P i j + Q i j))
                           (fun i => rsum m (fun j => U i j + V i j))).
  apply rsum_ext; intros i Hi. rewrite <- rsum_plus. apply rsum_ext; intros j Hj.
  unfold P, Q, U, V. ring.
Qed.

Section MPF.
  Variables (npx npy : nat) (le te : R).
  Variable mesh : nat -> nat -> nat -> R.
  Variable F : nat -> nat -> nat -> R.

  Lemma mpf_weighted (X : nat -> nat -> R) d :
    rsum (S npx) (fun i => rsum (S npy) (fun j => X i j * mesh_point_forces npx npy le te F i j d))
    = rsum npx (fun i => rsum npy (fun j =>
        F i j d * (le * (X i j + X i (S j)) + te * (X (S i) j + X (S i) (S j))))).
  Proof.
    unfold mesh_point_forces. rops.
    rewrite (grid_scatter npx npy X (fun i j => F i j d * le) (fun i j => F i j d * te)
                          (fun i j => F i j d * te) (fun i j => F i j d * le)).
    apply rsum_ext; intros i Hi. apply rsum_ext; intros j Hj. ring.
  Qed.

  Lemma mpf_force_conserved d :
    rsum (S npx) (fun i => rsum (S npy) (fun j => mesh_point_forces npx npy le te F i j d))
    = 2 * (le + te) * rsum npx (fun i => rsum npy (fun j => F i j d)).
  Proof.
    transitivity (rsum (S npx) (fun i => rsum (S npy) (fun j => 1 * mesh_point_forces npx npy le te F i j d))).
    { apply rsum_ext; intros; apply rsum_ext; intros; ring. }
    rewrite (mpf_weighted (fun _ _ => 1)).
    rewrite <- rsum_scal. apply rsum_ext; intros i Hi.
    rewrite <- rsum_scal. apply rsum_ext; intros j Hj. ring.
  Qed.

  (* total moment about any point p: the mesh-point forces acting at the mesh points are
     equivalent to the panel forces acting at the panel force points (quarter chord) *)
  Lemma mpf_moment_conserved (p : nat -> R) d : (d < 3)%nat ->
    le = 375 / 1000 -> te = 125 / 1000 ->
    rsum (S npx) (fun i => rsum (S npy) (fun j =>
        cross (vsub (mesh i j) p) (mesh_point_forces npx npy le te F i j) d))
    = rsum npx (fun i => rsum npy (fun j => cross (vsub (force_pts mesh i j) p) (F i j) d)).
  Proof.
    intros Hd Hle Hte.
    assert (E : forall a b, (a < 3)%nat -> (b < 3)%nat ->
      rsum (S npx) (fun i => rsum (S npy) (fun j =>
         (mesh i j a - p a) * mesh_point_forces npx npy le te F i j b))
      = rsum npx (fun i => rsum npy (fun j => (force_pts mesh i j a - p a) * F i j b))).
    { intros a b _ _. rewrite (mpf_weighted (fun i j => mesh i j a - p a) b).
      apply rsum_ext; intros i Hi. apply rsum_ext; intros j Hj.
      unfold force_pts, ofrac; rops. subst le te. field. }
    destruct d as [|[|[|d]]]; try lia; unfold cross, mk3, vsub; rops.
    all: rewrite (rsum_ext _ _ _ (fun i _ => rsum_minus _ _ _)), rsum_minus, !E by lia;
      rewrite <- rsum_minus; apply rsum_ext; intros i Hi;
      rewrite <- rsum_minus; apply rsum_ext; intros j Hj; reflexivity.
  Qed.
End MPF.

(* ---------------- displacement transfer: rigid-motion identities ---------------- *)
Lemma transf_zero a b : transf 0 0 0 a b = 0.
Proof.
  unfold transf, o2. rops. rewrite ?cos_0, ?sin_0.
  destruct a as [|[|[|a]]], b as [|[|[|b]]]; lra.
Qed.

Section DT.
  Variable mesh : nat -> nat -> nat -> R.
  Variable disp : nat -> nat -> R.
  Variables (npx : nat) (w : R).

  (* zero rotations: the mesh is translated exactly by the nodal translations *)
  Lemma disp_translation_exact i j d :
    disp j 3%nat = 0 -> disp j 4%nat = 0 -> disp j 5%nat = 0 ->
    def_mesh_group npx w mesh disp i j d = mesh i j d + disp j d.
  Proof.
    intros H3 H4 H5. unfold def_mesh_group, def_mesh, def_mesh_rot, transf_mtx. rops.
    rewrite H3, H4, H5. rewrite (rsum_zero 3); [lra|].
    intros k Hk. rewrite transf_zero. lra.
  Qed.

  Lemma disp_zero_identity i j d :
    (forall c, disp j c = 0) -> def_mesh_group npx w mesh disp i j d = mesh i j d.
  Proof. intros H. rewrite disp_translation_exact by apply H. rewrite H. lra. Qed.
End DT.

(* the first-order part of the rotation map is the skew generator:  sum_k r_k dT/dr_k|_0 arm = r x arm *)
Lemma disp_rotation_first_order (r arm : nat -> R) d : (d < 3)%nat ->
  rsum 3 (fun k => r k * rsum 3 (fun b => transf_d 0 0 0 d b k * arm b)) = cross r arm d.
Proof.
  intros Hd. unfold transf_d, cross, mk3. rops. rewrite ?cos_0, ?sin_0.
  destruct d as [|[|[|d]]]; try lia; cbn [sumn]; rops; rewrite ?cos_0, ?sin_0; ring.
Qed.

(* ---------------- C01: the reported derivative of the transformation matrix ---------------- *)
From Coquelicot Require Import Coquelicot.
From OAS Require Import Deriv.

Lemma transf_derive_rx rx ry rz a b :
  is_derive (fun t => transf t ry rz a b) rx (transf_d rx ry rz a b 0%nat).
Proof.
  destruct a as [|[|[|a]]], b as [|[|[|b]]]; unfold transf, transf_d, o2; rops;
    auto_derive; try exact I; ring.
Qed.
Lemma transf_derive_ry rx ry rz a b :
  is_derive (fun t => transf rx t rz a b) ry (transf_d rx ry rz a b 1%nat).
Proof.
  destruct a as [|[|[|a]]], b as [|[|[|b]]]; unfold transf, transf_d, o2; rops;
    auto_derive; try exact I; ring.
Qed.
Lemma transf_derive_rz rx ry rz a b :
  is_derive (fun t => transf rx ry t a b) rz (transf_d rx ry rz a b 2%nat).
Proof.
  destruct a as [|[|[|a]]], b as [|[|[|b]]]; unfold transf, transf_d, o2; rops;
    auto_derive; try exact I; ring.
Qed.

(* the load-transfer aerodynamic centres at w1 = 1/4 are the panel force points *)
Lemma lt_apts_is_force_pts mesh i j d : lt_apts (1 / 4) mesh i j d = force_pts mesh i j d.
Proof. unfold lt_apts, force_pts, ohalf, ofrac; rops. field. Qed.

(* the constants as they stand in the source (coq/Generated/Constants.v) *)
Lemma gen_mpf_weights : @gen_mpf_le_wt R Rops = 375 / 1000 /\ @gen_mpf_te_wt R Rops = 125 / 1000.
Proof. unfold gen_mpf_le_wt, gen_mpf_te_wt, ofrac; rops. split; lra. Qed.
Lemma gen_lt_w1_quarter : @gen_lt_w1 R Rops = 1 / 4.
Proof. unfold gen_lt_w1, ofrac; rops. lra. Qed.

Lemma mpf_force_conserved_code npx npy F d :
    rsum (S npx) (fun i => rsum (S npy) (fun j =>
        mesh_point_forces npx npy gen_mpf_le_wt gen_mpf_te_wt F i j d))
    = rsum npx (fun i => rsum npy (fun j => F i j d)).
Proof. rewrite mpf_force_conserved. destruct gen_mpf_weights as [-> ->]. lra. Qed.

Lemma mpf_moment_conserved_code npx npy mesh F (p : nat -> R) d : (d < 3)%nat ->
    rsum (S npx) (fun i => rsum (S npy) (fun j =>
        cross (vsub (mesh i j) p) (mesh_point_forces npx npy gen_mpf_le_wt gen_mpf_te_wt F i j) d))
    = rsum npx (fun i => rsum npy (fun j => cross (vsub (force_pts mesh i j) p) (F i j) d)).
Proof. intros. apply mpf_moment_conserved; auto; apply gen_mpf_weights. Qed.

Lemma lt_apts_code_is_force_pts mesh i j d : lt_apts gen_lt_w1 mesh i j d = force_pts mesh i j d.
Proof. rewrite gen_lt_w1_quarter. apply lt_apts_is_force_pts. Qed.

Lemma transf_d_is_derivative rx ry rz a b :
    is_derive (fun t => transf t ry rz a b) rx (transf_d rx ry rz a b 0%nat) /\
    is_derive (fun t => transf rx t rz a b) ry (transf_d rx ry rz a b 1%nat) /\
    is_derive (fun t => transf rx ry t a b) rz (transf_d rx ry rz a b 2%nat).
Proof. split; [apply transf_derive_rx | split; [apply transf_derive_ry | apply transf_derive_rz]]. Qed.
