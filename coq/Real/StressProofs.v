(* StressProofs.v — lemmas for C15 (stress recovery and failure aggregation). *)
From Coq Require Import Reals ZArith Lra Lia Arith.
From OAS Require Import Scalar Rops Sums Stress Vec3.
Open Scope R_scope.

(* ---------------- maxima ---------------- *)
Lemma omax_R a b : @omax R Rops a b = Rmax a b.
Proof.
  unfold omax; rops. unfold Rltb, Rmax.
  destruct (Rlt_dec a b), (Rle_dec a b); try reflexivity; lra.
Qed.

Lemma maxn_ge n f i : (i <= n)%nat -> f i <= @maxn R Rops n f.
Proof.
  induction n as [|n IH]; intros Hi.
  - replace i with 0%nat by lia. cbn [maxn]. lra.
  - cbn [maxn]. rewrite omax_R. destruct (Nat.eq_dec i (S n)) as [->|Hne].
    + apply Rmax_r.
    + eapply Rle_trans; [apply IH; lia | apply Rmax_l].
Qed.

Lemma maxn_attained n f : exists i, (i <= n)%nat /\ @maxn R Rops n f = f i.
Proof.
  induction n as [|n [i [Hi IH]]].
  - exists 0%nat; split; [lia | reflexivity].
  - cbn [maxn]. rewrite omax_R. destruct (Rle_dec (maxn n f) (f (S n))).
    + exists (S n). split; [lia|]. apply Rmax_right; assumption.
    + exists i. split; [lia|]. rewrite Rmax_left by lra. exact IH.
Qed.

(* ---------------- KS aggregation ---------------- *)
Section KS.
  Variables (n : nat) (rho sigma : R) (vm : nat -> R).
  Hypothesis Hrho : 0 < rho.

  Let f := ks_f sigma vm.
  Let fmax := ks_fmax n sigma vm.
  Let ex := fun i => exp (ks_expo n rho sigma vm i).

  Lemma ks_expo_eq i : ks_expo n rho sigma vm i = rho * (f i - fmax).
  Proof. unfold ks_expo, f, fmax, ks_f; rops. ring. Qed.

  (* every exponent is <= 0: no overflow whatever the stress magnitude *)
  Lemma ks_exponents_nonpos i : (i <= n)%nat -> ks_expo n rho sigma vm i <= 0.
  Proof.
    intros Hi. rewrite ks_expo_eq.
    assert (f i <= fmax) by (apply maxn_ge; exact Hi). nra.
  Qed.

  Lemma ks_sum_ge_1 : 1 <= rsum (S n) ex.
  Proof.
    destruct (maxn_attained n f) as [k [Hk Hmax]].
    eapply Rle_trans; [| apply (rsum_term_le (S n) ex k); [lia | intros; unfold ex; left; apply exp_pos]].
    unfold ex. rewrite ks_expo_eq. unfold fmax, ks_fmax. fold f. rewrite Hmax.
    replace (rho * (f k - f k)) with 0 by ring. rewrite exp_0. lra.
  Qed.

  Lemma ks_sum_le_N : rsum (S n) ex <= INR (S n).
  Proof.
    replace (INR (S n)) with (rsum (S n) (fun _ => 1)) by (rewrite rsum_const; ring).
    apply rsum_le. intros i Hi. unfold ex. rewrite <- exp_0.
    destruct (ks_exponents_nonpos i) as [Hlt|Heq]; [lia | left; apply exp_increasing; exact Hlt | rewrite Heq; lra].
  Qed.

  Lemma failure_ks_eq : failure_ks n rho sigma vm = fmax + 1 / rho * ln (rsum (S n) ex).
  Proof. reflexivity. Qed.

  (* conservative: never below the largest element failure value *)
  Lemma ks_lower i : (i <= n)%nat -> f i <= failure_ks n rho sigma vm.
  Proof.
    intros Hi. rewrite failure_ks_eq.
    assert (f i <= fmax) by (apply maxn_ge; exact Hi).
    assert (0 <= ln (rsum (S n) ex)).
    { rewrite <- ln_1. destruct ks_sum_ge_1 as [Hlt|Heq]; [left; apply ln_increasing; lra | rewrite <- Heq; lra]. }
    assert (0 <= 1 / rho * ln (rsum (S n) ex)).
    { apply Rmult_le_pos; [|assumption]. unfold Rdiv. rewrite Rmult_1_l. left. apply Rinv_0_lt_compat, Hrho. }
    lra.
  Qed.

  (* ... and above it by at most ln N / rho *)
  Lemma ks_upper : failure_ks n rho sigma vm <= fmax + ln (INR (S n)) / rho.
  Proof.
    rewrite failure_ks_eq.
    assert (ln (rsum (S n) ex) <= ln (INR (S n))).
    { pose proof ks_sum_ge_1. destruct ks_sum_le_N as [Hlt|Heq]; [left; apply ln_increasing; lra | rewrite Heq; lra]. }
    assert (0 < / rho) by (apply Rinv_0_lt_compat, Hrho).
    unfold Rdiv. rewrite Rmult_1_l. rewrite (Rmult_comm (ln (INR (S n)))). nra.
  Qed.

  (* shift invariance: the max-shifted form equals the plain log-sum-exp *)
  Lemma ks_is_logsumexp :
    failure_ks n rho sigma vm = 1 / rho * ln (rsum (S n) (fun i => exp (rho * f i))).
  Proof.
    rewrite failure_ks_eq.
    assert (E : rsum (S n) (fun i => exp (rho * f i)) = exp (rho * fmax) * rsum (S n) ex).
    { rewrite <- rsum_scal. apply rsum_ext; intros i Hi. unfold ex. rewrite ks_expo_eq, <- exp_plus. f_equal. ring. }
    rewrite E, ln_mult; [| apply exp_pos | pose proof ks_sum_ge_1; lra].
    rewrite ln_exp. field. lra.
  Qed.
End KS.

(* ---------------- von Mises, tube ---------------- *)
Lemma sqrt_sq_abs x : sqrt (x * x) = Rabs x.
Proof. replace (x * x) with (Rsqr x) by reflexivity. apply sqrt_Rsqr_abs. Qed.

Lemma sqrt_scale c a : 0 <= a -> sqrt (c * c * a) = Rabs c * sqrt a.
Proof. intros Ha. rewrite sqrt_mult by nra. rewrite sqrt_sq_abs. reflexivity. Qed.

Lemma sq3_nonneg x y : 0 <= x * x + 3 * (y * y).
Proof. nra. Qed.

Lemma tube_vm_local_nonneg E G r L du drx dry drz s :
  0 <= tube_vm_local E G r L du drx dry drz s.
Proof. unfold tube_vm_local. destruct s; rops; apply sqrt_pos. Qed.

Lemma tube_vm_local_zero E G r L s : tube_vm_local E G r L 0 0 0 0 s = 0.
Proof.
  unfold tube_vm_local, osq, o3. rops.
  replace (0 * 0 + 0 * 0) with 0 by ring. rewrite sqrt_0.
  destruct s; unfold Rdiv;
    match goal with |- sqrt ?x = 0 => replace x with 0 by ring end; apply sqrt_0.
Qed.

(* positive homogeneity; a negative factor swaps the two recovery points *)
Lemma tube_vm_local_scale E G r L du drx dry drz c s : 0 <= c ->
  tube_vm_local E G r L (c * du) (c * drx) (c * dry) (c * drz) s
  = c * tube_vm_local E G r L du drx dry drz s.
Proof.
  intros Hc. unfold tube_vm_local, osq, o3. rops.
  replace (c * dry * (c * dry) + c * drz * (c * drz)) with (c * c * (dry * dry + drz * drz)) by ring.
  rewrite sqrt_scale by nra. rewrite (Rabs_right c) by lra.
  set (tmp := sqrt (dry * dry + drz * drz)).
  destruct s;
    match goal with |- sqrt ?a = c * sqrt ?b =>
      replace a with (c * c * b) by (unfold Rdiv; ring);
      rewrite sqrt_scale by apply sq3_nonneg; rewrite (Rabs_right c) by lra; reflexivity end.
Qed.

Lemma tube_vm_local_neg E G r L du drx dry drz :
  tube_vm_local E G r L (- du) (- drx) (- dry) (- drz) 0 = tube_vm_local E G r L du drx dry drz 1 /\
  tube_vm_local E G r L (- du) (- drx) (- dry) (- drz) 1 = tube_vm_local E G r L du drx dry drz 0.
Proof.
  unfold tube_vm_local, osq, o3. rops.
  replace (- dry * - dry + - drz * - drz) with (dry * dry + drz * drz) by ring.
  split; f_equal; unfold Rdiv; ring.
Qed.

(* closed forms *)
Lemma tube_pure_axial E G r L du s :
  tube_vm_local E G r L du 0 0 0 s = Rabs (E * du / L).
Proof.
  unfold tube_vm_local, osq, o3. rops.
  replace (0 * 0 + 0 * 0) with 0 by ring. rewrite sqrt_0.
  destruct s.
  - rewrite <- sqrt_sq_abs. f_equal. unfold Rdiv. ring.
  - rewrite <- sqrt_sq_abs. f_equal. unfold Rdiv. ring.
Qed.

Lemma tube_pure_torsion E G r L drx s :
  tube_vm_local E G r L 0 drx 0 0 s = sqrt 3 * Rabs (G * r * drx / L).
Proof.
  unfold tube_vm_local, osq, o3. rops.
  replace (0 * 0 + 0 * 0) with 0 by ring. rewrite sqrt_0.
  rewrite <- sqrt_sq_abs, <- sqrt_mult by nra.
  destruct s; f_equal; unfold Rdiv; ring.
Qed.

Lemma tube_pure_bending E G r L dry drz s : 0 <= E * r / L ->
  tube_vm_local E G r L 0 0 dry drz s = E * r / L * sqrt (dry * dry + drz * drz).
Proof.
  intros H. unfold tube_vm_local, osq, o3. rops.
  set (tmp := sqrt (dry * dry + drz * drz)).
  assert (0 <= tmp) by apply sqrt_pos.
  assert (Hp : 0 <= E * r / L * tmp) by nra.
  destruct s;
    match goal with |- sqrt ?a = ?b =>
      replace a with (b * b) by (unfold Rdiv; ring); rewrite sqrt_sq_abs; apply Rabs_right; lra end.
Qed.

(* ---------------- rigid-body motion gives zero stress ---------------- *)
Lemma dot_ext a b b' : (forall d, (d < 3)%nat -> b d = b' d) -> dot a b = dot a b'.
Proof. intros H. unfold dot; rops. rewrite !H by lia. reflexivity. Qed.

Lemma triple_cyclic a b c : dot a (cross b c) = dot b (cross c a).
Proof. v3. ring. Qed.

Section Rigid.
  Variable nodes : nat -> nat -> R.
  Variable disp : nat -> nat -> R.
  Variable e : nat.
  Let dP := vsub (P1 nodes e) (P0 nodes e).
  Hypothesis Hlen : 0 < dot dP dP.
  Hypothesis Hnpar : 0 < dP 1%nat * dP 1%nat + dP 2%nat * dP 2%nat.

  Let x := xl nodes e. Let y := yl nodes e. Let z := zl nodes e. Let L := eL nodes e.

  Lemma L_pos : 0 < L.
  Proof. apply nrm_pos, Hlen. Qed.

  Lemma dP_is_L_x d : dP d = L * x d.
  Proof. unfold x, xl, loc_x, vunit, L, eL. fold dP. rops. field. pose proof L_pos as H. unfold L, eL in H. fold dP in H. lra. Qed.

  (* --- uniform translation --- *)
  Section Translation.
    Variable t : nat -> R.
    Hypothesis Hu : forall n d, (d < 3)%nat -> disp n d = t d.
    Hypothesis Hr : forall n d, (d < 3)%nat -> disp n (3 + d)%nat = 0.

    Lemma tr_du ax : u1 disp e ax - u0 disp e ax = 0.
    Proof.
      unfold u1, u0. rewrite (dot_ext ax (utr disp (S e)) t), (dot_ext ax (utr disp e) t); try lra;
        intros d Hd; unfold utr; apply Hu; exact Hd.
    Qed.
    Lemma tr_r0 ax : r0 disp e ax = 0.
    Proof. unfold r0, rot, dot; rops. rewrite !Hr by lia. ring. Qed.
    Lemma tr_r1 ax : r1 disp e ax = 0.
    Proof. unfold r1, rot, dot; rops. rewrite !Hr by lia. ring. Qed.

    Lemma vm_tube_translation_zero E G radius s : vm_tube nodes disp e E G radius s = 0.
    Proof.
      unfold vm_tube. rops. rewrite tr_du, !tr_r0, !tr_r1.
      replace (0 - 0) with 0 by ring. apply tube_vm_local_zero.
    Qed.
  End Translation.

  (* --- linearised rigid rotation about x0 by the rotation vector th --- *)
  Section Rotation.
    Variables th x0 : nat -> R.
    Hypothesis Hu : forall n d, (d < 3)%nat -> disp n d = cross th (vsub (nodes n) x0) d.
    Hypothesis Hr : forall n d, (d < 3)%nat -> disp n (3 + d)%nat = th d.

    Lemma rot_r0 ax : r0 disp e ax = dot ax th.
    Proof. unfold r0. apply dot_ext. intros d Hd. unfold rot. apply Hr, Hd. Qed.
    Lemma rot_r1 ax : r1 disp e ax = dot ax th.
    Proof. unfold r1. apply dot_ext. intros d Hd. unfold rot. apply Hr, Hd. Qed.

    Lemma rot_du ax : u1 disp e ax - u0 disp e ax = L * dot th (cross x ax).
    Proof.
      unfold u1, u0.
      rewrite (dot_ext ax (utr disp (S e)) (cross th (vsub (nodes (S e)) x0))),
              (dot_ext ax (utr disp e) (cross th (vsub (nodes e) x0)));
        try (intros d Hd; unfold utr; apply Hu; exact Hd).
      transitivity (dot ax (cross th dP)).
      { unfold dP, P1, P0. v3. ring. }
      rewrite triple_cyclic.
      unfold dot, cross, mk3; rops. rewrite !dP_is_L_x. ring.
    Qed.

    Lemma rot_du_x : u1 disp e x - u0 disp e x = 0.
    Proof. rewrite rot_du. v3. ring. Qed.
    Lemma rot_du_y : u1 disp e y - u0 disp e y = L * dot th z.
    Proof.
      rewrite rot_du. f_equal. apply dot_ext. intros d Hd. symmetry.
      apply (frame_z_is_cross (P0 nodes e) (P1 nodes e)); assumption.
    Qed.
    Lemma rot_du_z : u1 disp e z - u0 disp e z = - L * dot th y.
    Proof.
      rewrite rot_du.
      assert (E : forall d, (d < 3)%nat -> cross x z d = - y d).
      { intros d Hd. rewrite cross_anticomm by exact Hd. f_equal.
        apply (frame_zx_cross (P0 nodes e) (P1 nodes e)); assumption. }
      rewrite (dot_ext th (cross x z) (fun d => - y d) E). unfold dot; rops. ring.
    Qed.

    Lemma vm_tube_rotation_zero E G radius s : vm_tube nodes disp e E G radius s = 0.
    Proof.
      unfold vm_tube. rops. fold x y z. rewrite rot_du_x, !rot_r0, !rot_r1.
      replace (dot x th - dot x th) with 0 by ring.
      replace (dot y th - dot y th) with 0 by ring.
      replace (dot z th - dot z th) with 0 by ring.
      apply tube_vm_local_zero.
    Qed.

    Lemma wb_mz_rotation_zero : wb_mz nodes disp e = 0.
    Proof.
      unfold wb_mz, o6, o2, o4. fold x y z L. rops. rewrite rot_r0, rot_r1.
      pose proof rot_du_y as H. rewrite (dot_comm th z) in H. nra.
    Qed.
    Lemma wb_my_rotation_zero : wb_my nodes disp e = 0.
    Proof.
      unfold wb_my, o6, o2, o4. fold x y z L. rops. rewrite rot_r0, rot_r1.
      pose proof rot_du_z as H. rewrite (dot_comm th y) in H. nra.
    Qed.
  End Rotation.
End Rigid.

(* ---------------- von Mises, wingbox ---------------- *)
Section WB.
  Variable nodes : nat -> nat -> R.
  Variable disp : nat -> nat -> R.
  Variable e : nat.
  Variables (E G tssf : R) (Qz J A_enc tsp htop hbot hfront hrear : nat -> R).

  Lemma vm_wingbox_nonneg s : 0 < tssf ->
    0 <= vm_wingbox nodes disp e E G tssf Qz J A_enc tsp htop hbot hfront hrear s.
  Proof.
    intros Ht. unfold vm_wingbox. destruct s as [|[|[|s]]]; rops;
      try apply sqrt_pos; apply Rmult_le_pos; try apply sqrt_pos; left; apply Rinv_0_lt_compat, Ht.
  Qed.

  (* all strain measures zero => all four stress combinations zero *)
  Lemma vm_wingbox_zero s :
    u1 disp e (xl nodes e) - u0 disp e (xl nodes e) = 0 ->
    r1 disp e (xl nodes e) - r0 disp e (xl nodes e) = 0 ->
    wb_mz nodes disp e = 0 -> wb_my nodes disp e = 0 -> wb_vnum nodes disp e = 0 ->
    vm_wingbox nodes disp e E G tssf Qz J A_enc tsp htop hbot hfront hrear s = 0.
  Proof.
    intros Hx Hrx Hmz Hmy Hv.
    unfold vm_wingbox, wb_axial, wb_torsion, wb_top, wb_bottom, wb_front, wb_rear, wb_vshear, osq, o3, o2.
    rops. rewrite Hx, Hrx, Hmz, Hmy, Hv.
    destruct s as [|[|[|s]]]; unfold Rdiv;
      match goal with |- context [sqrt ?a] => replace a with 0 by ring end; rewrite sqrt_0; ring.
  Qed.
End WB.

Section WBRigid.
  Variable nodes : nat -> nat -> R.
  Variable disp : nat -> nat -> R.
  Variable e : nat.
  Let dP := vsub (P1 nodes e) (P0 nodes e).
  Hypothesis Hlen : 0 < dot dP dP.
  Hypothesis Hnpar : 0 < dP 1%nat * dP 1%nat + dP 2%nat * dP 2%nat.
  Variables (E G tssf : R) (Qz J A_enc tsp htop hbot hfront hrear : nat -> R).

  Lemma vm_wingbox_translation_zero (t : nat -> R) s :
    (forall n d, (d < 3)%nat -> disp n d = t d) ->
    (forall n d, (d < 3)%nat -> disp n (3 + d)%nat = 0) ->
    vm_wingbox nodes disp e E G tssf Qz J A_enc tsp htop hbot hfront hrear s = 0.
  Proof.
    intros Hu Hr. apply vm_wingbox_zero.
    - apply (tr_du disp e t Hu).
    - rewrite (tr_r0 disp e Hr), (tr_r1 disp e Hr). ring.
    - unfold wb_mz, o6, o2, o4; rops. rewrite (tr_r0 disp e Hr), (tr_r1 disp e Hr).
      pose proof (tr_du disp e t Hu (yl nodes e)). nra.
    - unfold wb_my, o6, o2, o4; rops. rewrite (tr_r0 disp e Hr), (tr_r1 disp e Hr).
      pose proof (tr_du disp e t Hu (zl nodes e)). nra.
    - unfold wb_vnum, o6, o12; rops. rewrite (tr_r0 disp e Hr), (tr_r1 disp e Hr).
      pose proof (tr_du disp e t Hu (yl nodes e)). nra.
  Qed.

  Lemma vm_wingbox_rotation_zero (th x0 : nat -> R) s :
    (forall n d, (d < 3)%nat -> disp n d = cross th (vsub (nodes n) x0) d) ->
    (forall n d, (d < 3)%nat -> disp n (3 + d)%nat = th d) ->
    vm_wingbox nodes disp e E G tssf Qz J A_enc tsp htop hbot hfront hrear s = 0.
  Proof.
    intros Hu Hr. apply vm_wingbox_zero.
    - apply (rot_du_x nodes disp e Hlen th x0 Hu).
    - rewrite (rot_r0 disp e th Hr), (rot_r1 disp e th Hr). ring.
    - apply (wb_mz_rotation_zero nodes disp e Hlen Hnpar th x0 Hu Hr).
    - apply (wb_my_rotation_zero nodes disp e Hlen Hnpar th x0 Hu Hr).
    - unfold wb_vnum, o6, o12; rops. rewrite (rot_r0 disp e th Hr), (rot_r1 disp e th Hr).
      pose proof (rot_du_y nodes disp e Hlen Hnpar th x0 Hu) as H.
      rewrite (dot_comm th (zl nodes e)) in H. nra.
  Qed.
End WBRigid.

(* ---------------- homogeneity in the displacement field ---------------- *)
Section Homog.
  Variable nodes : nat -> nat -> R.
  Variable disp : nat -> nat -> R.
  Variable e : nat.
  Variable c : R.
  Let cdisp := fun n d => c * disp n d.

  Lemma u0_scale ax : u0 cdisp e ax = c * u0 disp e ax.
  Proof. unfold u0, utr, cdisp, dot; rops. ring. Qed.
  Lemma u1_scale ax : u1 cdisp e ax = c * u1 disp e ax.
  Proof. unfold u1, utr, cdisp, dot; rops. ring. Qed.
  Lemma r0_scale ax : r0 cdisp e ax = c * r0 disp e ax.
  Proof. unfold r0, rot, cdisp, dot; rops. ring. Qed.
  Lemma r1_scale ax : r1 cdisp e ax = c * r1 disp e ax.
  Proof. unfold r1, rot, cdisp, dot; rops. ring. Qed.

  Lemma vm_tube_scale E G radius s : 0 <= c ->
    vm_tube nodes cdisp e E G radius s = c * vm_tube nodes disp e E G radius s.
  Proof.
    intros Hc. unfold vm_tube. rops. rewrite !u0_scale, !u1_scale, !r0_scale, !r1_scale.
    rewrite <- tube_vm_local_scale by exact Hc. f_equal; ring.
  Qed.

  Lemma vm_wingbox_scale E G tssf Qz J A_enc tsp htop hbot hfront hrear s :
    vm_wingbox nodes cdisp e E G tssf Qz J A_enc tsp htop hbot hfront hrear s
    = Rabs c * vm_wingbox nodes disp e E G tssf Qz J A_enc tsp htop hbot hfront hrear s.
  Proof.
    unfold vm_wingbox, wb_axial, wb_torsion, wb_top, wb_bottom, wb_front, wb_rear, wb_vshear,
      wb_mz, wb_my, wb_vnum, osq, o3, o2, o4, o6, o12.
    rops. rewrite !u0_scale, !u1_scale, !r0_scale, !r1_scale.
    destruct s as [|[|[|s]]];
      match goal with |- context [sqrt ?a] =>
        match goal with |- _ = Rabs c * ?rhs =>
          match rhs with context [sqrt ?b] =>
            replace a with (c * c * b) by (unfold Rdiv; ring);
            rewrite (sqrt_scale c b) by apply sq3_nonneg end end end;
      unfold Rdiv; ring.
  Qed.
End Homog.

(* ---------------- C01: the reported derivative of the KS aggregate ---------------- *)
From Coquelicot Require Import Coquelicot.
From OAS Require Import Deriv.

Section KSderiv.
  Variables (n : nat) (rho sigma : R) (vm : nat -> R).
  Hypothesis Hrho : 0 < rho.
  Hypothesis Hsig : sigma <> 0.

  Let f := ks_f sigma vm.
  Let Z := rsum (S n) (fun i => exp (rho * f i)).

  Lemma Z_pos : 0 < Z.
  Proof. unfold Z. apply rsum_pos; [lia | intros; apply exp_pos]. Qed.

  (* the shifted softmax of the code is the plain softmax *)
  Lemma ks_soft_eq i : ks_soft n rho sigma vm i = exp (rho * f i) / Z.
  Proof.
    unfold ks_soft. rops.
    assert (E : forall k, exp (ks_expo n rho sigma vm k) = exp (rho * f k) * exp (- rho * ks_fmax n sigma vm)).
    { intros k. rewrite ks_expo_eq, <- exp_plus. f_equal. unfold f. ring. }
    rewrite E. rewrite (rsum_ext _ _ (fun k => exp (rho * f k) * exp (- rho * ks_fmax n sigma vm)))
      by (intros; apply E).
    rewrite rsum_scal_r. fold Z. field. split; apply Rgt_not_eq; first [apply exp_pos | apply Z_pos].
  Qed.

  Lemma ks_soft_sum : rsum (S n) (ks_soft n rho sigma vm) = 1.
  Proof.
    rewrite (rsum_ext _ _ (fun i => exp (rho * f i) * / Z)) by (intros; rewrite ks_soft_eq; reflexivity).
    rewrite rsum_scal_r. fold Z. field. apply Rgt_not_eq, Z_pos.
  Qed.

  (* so the extra term added at the arg-max vanishes and the reported entry is softmax / sigma *)
  Lemma ks_J_eq i : ks_J n rho sigma vm i = exp (rho * f i) / Z / sigma.
  Proof.
    unfold ks_J. rops. rewrite ks_soft_sum, ks_soft_eq.
    destruct (i =? _)%nat; unfold Rdiv; ring.
  Qed.
End KSderiv.

Lemma ks_f_upd sigma vm k t i : ks_f sigma (upd1 vm k t) i = if (i =? k)%nat then t / sigma - 1 else ks_f sigma vm i.
Proof. unfold ks_f, upd1; rops. destruct (i =? k)%nat; reflexivity. Qed.

(* d KS / d vm_k = reported entry, at every input *)
Lemma failure_ks_derive n rho sigma vm k : 0 < rho -> sigma <> 0 -> (k <= n)%nat ->
  is_derive (fun t => failure_ks n rho sigma (upd1 vm k t)) (vm k) (ks_J n rho sigma vm k).
Proof.
  intros Hrho Hsig Hk.
  rewrite ks_J_eq by assumption.
  set (Z := rsum (S n) (fun i => exp (rho * ks_f sigma vm i))).
  assert (HZ : 0 < Z) by (apply Z_pos).
  apply (is_derive_ext (fun t => 1 / rho * ln (rsum (S n) (fun i => exp (rho * ks_f sigma (upd1 vm k t) i))))).
  { intros t. symmetry. apply ks_is_logsumexp, Hrho. }
  set (dh := fun i : nat => if (i =? k)%nat then rho / sigma * exp (rho * ks_f sigma vm k) else 0).
  assert (Hg : is_derive (fun t => rsum (S n) (fun i => exp (rho * ks_f sigma (upd1 vm k t) i))) (vm k) (rsum (S n) dh)).
  { apply is_derive_rsum. intros i Hi. unfold dh.
    destruct (Nat.eq_dec i k) as [->|Hne].
    - rewrite Nat.eqb_refl.
      apply (is_derive_ext (fun t => exp (rho * (t / sigma - 1)))).
      { intros t. rewrite ks_f_upd, Nat.eqb_refl. reflexivity. }
      unfold ks_f; rops. auto_derive; [exact I | unfold Rdiv, Rminus; ring].
    - apply Nat.eqb_neq in Hne. rewrite Hne.
      apply (is_derive_ext (fun _ => exp (rho * ks_f sigma vm i))).
      { intros t. rewrite ks_f_upd, Hne. reflexivity. }
      apply (is_derive_const (K := R_AbsRing) (V := R_NormedModule)). }
  assert (Hsum : rsum (S n) dh = rho / sigma * exp (rho * ks_f sigma vm k)).
  { rewrite (rsum_single (S n) k dh); [unfold dh; rewrite Nat.eqb_refl; reflexivity | lia |].
    intros i Hi Hne. unfold dh. apply Nat.eqb_neq in Hne. rewrite Hne. reflexivity. }
  rewrite Hsum in Hg.
  assert (Hv : rsum (S n) (fun i => exp (rho * ks_f sigma (upd1 vm k (vm k)) i)) = Z).
  { unfold Z. apply rsum_ext; intros i Hi. rewrite ks_f_upd. destruct (Nat.eq_dec i k) as [->|Hne].
    - rewrite Nat.eqb_refl. reflexivity.
    - apply Nat.eqb_neq in Hne. rewrite Hne. reflexivity. }
  eapply is_derive_ext'; [intros t; reflexivity|].
  evar (l : R).
  assert (Hc : is_derive (fun t => 1 / rho * ln (rsum (S n) (fun i => exp (rho * ks_f sigma (upd1 vm k t) i)))) (vm k) l).
  { apply (is_derive_comp (fun y => 1 / rho * ln y) _ (vm k)); [| exact Hg].
    rewrite Hv. auto_derive; [exact HZ | reflexivity]. }
  unfold l in Hc. clear l.
  match type of Hc with is_derive _ _ ?d =>
    replace (exp (rho * ks_f sigma vm k) / Z / sigma) with d; [exact Hc|] end.
  unfold scal; simpl; unfold mult; simpl. field. repeat split; lra.
Qed.
