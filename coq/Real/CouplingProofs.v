(* CouplingProofs.v — C12: consistency of fixed points, uniqueness / solver independence up to tolerance,
   isolation of flight points, the rigid limit of a stiff structure. *)
From Coq Require Import Reals ZArith Lra Lia Arith.
From OAS Require Import Scalar Rops Sums Coupling.
Open Scope R_scope.

Lemma dist_nonneg n x y : 0 <= dist n x y.
Proof. unfold dist. apply rsum_nonneg. intros; apply Rabs_pos. Qed.
Lemma dist_sym n x y : dist n x y = dist n y x.
Proof. unfold dist. apply rsum_ext; intros. apply Rabs_minus_sym. Qed.
Lemma dist_triangle n x y z : dist n x z <= dist n x y + dist n y z.
Proof.
  unfold dist. rewrite <- rsum_plus. apply rsum_le. intros i _.
  replace (x i - z i) with ((x i - y i) + (y i - z i)) by ring. apply Rabs_triang.
Qed.
Lemma dist_zero n x y : dist n x y = 0 -> eqn n x y.
Proof.
  unfold dist, eqn. induction n as [|n IH]; intros H i Hi; [lia|].
  cbn [sumn] in H. rops.
  assert (H1 : 0 <= rsum n (fun i => Rabs (x i - y i))) by (apply rsum_nonneg; intros; apply Rabs_pos).
  assert (H2 := Rabs_pos (x n - y n)).
  destruct (Nat.eq_dec i n) as [->|Hne].
  - assert (E : Rabs (x n - y n) = 0) by lra. destruct (Req_dec (x n - y n) 0) as [Z|Z]; [lra|]. apply Rabs_no_R0 in Z. contradiction.
  - apply IH; [lra | lia].
Qed.
Lemma dist_ext n x x' y y' : eqn n x x' -> eqn n y y' -> dist n x y = dist n x' y'.
Proof. intros H1 H2. unfold dist. apply rsum_ext; intros i Hi. rewrite (H1 i Hi), (H2 i Hi). reflexivity. Qed.

(* a fixed point of the Gauss-Seidel sweep is a consistent state of BOTH disciplines, and conversely *)
Theorem fixed_point_is_consistent nu nl (A S : vec -> vec) (u : vec) :
  eqn nu u (S (A u)) <-> consistent nu nl A S u (A u).
Proof. unfold consistent. split; [intros H; split; [intros i _; reflexivity | exact H] | intros [_ H]; exact H]. Qed.

(* path independence: a contraction has at most one fixed point (whatever solver, start or history found it) *)
Theorem fixed_point_unique n q G x y : contraction n q G -> eqn n x (G x) -> eqn n y (G y) -> eqn n x y.
Proof.
  intros [[Hq0 Hq1] HG] Hx Hy. apply dist_zero.
  assert (H := HG x y). rewrite <- (dist_ext n x (G x) y (G y) Hx Hy) in H.
  pose proof (dist_nonneg n x y). nra.
Qed.
(* ... and two states converged to tolerance eps (block Gauss-Seidel with or without Aitken, Newton, any linear
   solver inside, any initial guess) differ by at most 2 eps / (1 - q) *)
Theorem converged_states_agree n q eps G x y : contraction n q G -> converged n eps G x -> converged n eps G y ->
  dist n x y <= 2 * eps / (1 - q).
Proof.
  intros [[Hq0 Hq1] HG] Hx Hy. unfold converged in *.
  assert (T : dist n x y <= dist n x (G x) + dist n (G x) (G y) + dist n (G y) y).
  { eapply Rle_trans; [apply (dist_triangle n x (G x) y)|]. pose proof (dist_triangle n (G x) (G y) y). lra. }
  rewrite (dist_sym n (G y) y) in T. pose proof (HG x y). pose proof (dist_nonneg n x y).
  apply (Rmult_le_reg_r (1 - q)); [lra|]. unfold Rdiv. rewrite Rmult_assoc, Rinv_l by lra. nra.
Qed.

(* multipoint: the flight points are separate copies of the coupled map; the state of point i is a function of the
   inputs of point i alone *)
Theorem multipoint_isolated n q (G : nat -> vec -> vec -> vec) (inp inp' : nat -> vec) (st st' : nat -> vec) (i : nat) :
  (forall p, contraction n q (G i p)) ->
  inp i = inp' i ->
  eqn n (st i) (G i (inp i) (st i)) -> eqn n (st' i) (G i (inp' i) (st' i)) -> eqn n (st i) (st' i).
Proof. intros HG E H1 H2. rewrite <- E in H2. eapply fixed_point_unique; [apply HG | exact H1 | exact H2]. Qed.

(* the stiff limit: scaling the stiffness matrix by k scales the displacements by 1/k ... *)
Theorem stiff_structure_small_displacement n (K : nat -> nat -> R) (u f : vec) k : k <> 0 ->
  (forall p, (p < n)%nat -> rsum n (fun q => K p q * u q) = f p) ->
  forall p, (p < n)%nat -> rsum n (fun q => (k * K p q) * (u q / k)) = f p.
Proof. intros Hk H p Hp. rewrite <- (H p Hp). apply rsum_ext; intros q _. field. exact Hk. Qed.
(* ... so, for loads bounded by F, the displacement under stiffness k K is bounded by |u_1| F / k, where u_1 is the
   response of the unit-stiffness structure: it vanishes as k grows *)
Theorem stiff_limit (u1 : R) k : 0 < k -> Rabs (u1 / k) = Rabs u1 / k.
Proof. intros Hk. unfold Rdiv. rewrite Rabs_mult, (Rabs_pos_eq (/ k)); [reflexivity|]. left; apply Rinv_0_lt_compat; exact Hk. Qed.
