(* AeroDeriv.v — C01 for the vortex-lattice chain: CollocationPoints, VortexMesh (with ghost and ground
   image), GetVectors, the vortex kernels and EvalVelMtx, VLMGeometry, ConvertVelocity, RotationalVelocity,
   VLMMtxRHSComp, SolveMatrix (residual), HorseshoeCirculations, EvalVelocities, PanelForces, LiftDrag, Coeffs. *)
From Coq Require Import Reals ZArith Lra Lia Arith Bool.
From Coquelicot Require Import Coquelicot.
From OAS Require Import Scalar Rops Sums Deriv Dual DualProofs Aero.
Open Scope R_scope.

Section Mesh.
  Variables (M : R -> nat -> nat -> nat -> R) (t0 : R) (m : nat -> nat -> nat -> dual R).
  Hypothesis HM : DR3 M t0 m.
  Lemma coll_pts_DR i j d : DR (fun t => coll_pts (M t) i j d) t0 (coll_pts m i j d).
  Proof. unfold coll_pts, c025, c075. dr. Qed.
  Lemma force_pts_c_DR i j d : DR (fun t => force_pts_c (M t) i j d) t0 (force_pts_c m i j d).
  Proof. unfold force_pts_c, c025, c075. dr. Qed.
  Lemma bound_vecs_DR i j d : DR (fun t => bound_vecs (M t) i j d) t0 (bound_vecs m i j d).
  Proof. unfold bound_vecs, c025, c075. dr. Qed.
  Lemma qc_rows_DR npx i j d : DR (fun t => qc_rows npx (M t) i j d) t0 (qc_rows npx m i j d).
  Proof. unfold qc_rows, c025, c075. dr. Qed.
  Lemma flipy_DR d X x : DR X t0 x -> DR (fun t => flipy d (X t)) t0 (flipy d x).
  Proof. intros. unfold flipy. dr. Qed.
  Lemma ghost_mesh_DR npy left i j d : DR (fun t => ghost_mesh npy left (M t) i j d) t0 (ghost_mesh npy left m i j d).
  Proof. unfold ghost_mesh. destruct left; [destruct (j <=? npy)%nat | destruct (npy <=? j)%nat]; first [apply HM | apply flipy_DR; apply HM]. Qed.
End Mesh.

Lemma plane_n_DRv A t0 a : DR A t0 a -> DRv (fun t => plane_n (A t)) t0 (plane_n a).
Proof. intros. unfold plane_n. apply DRv_mk3; dr. Qed.
Lemma reflect_DR A H P t0 a h p d : DR A t0 a -> DR H t0 h -> DRv P t0 p -> DR (fun t => reflect (A t) (H t) (P t) d) t0 (reflect a h p d).
Proof.
  intros HA HH HP. unfold reflect. cbv zeta. pose proof (plane_n_DRv A t0 a HA) as Hn.
  dr; try apply Hn; try apply HP.
Qed.
Lemma vortex_mesh_DR npx npy sym ground left A H M t0 a h m i j d : DR A t0 a -> DR H t0 h -> DR3 M t0 m ->
  DR (fun t => vortex_mesh npx npy sym ground left (A t) (H t) (M t) i j d) t0 (vortex_mesh npx npy sym ground left a h m i j d).
Proof.
  intros HA HH HM. unfold vortex_mesh. cbv zeta.
  assert (Hb : DR3 (fun t => if sym then ghost_mesh npy left (M t) else M t) t0 (if sym then ghost_mesh npy left m else m)).
  { destruct sym; [intros a1 b1 c1; apply ghost_mesh_DR; exact HM | exact HM]. }
  destruct ground; [destruct (i <=? npx)%nat|].
  - apply (qc_rows_DR (fun t => if sym then ghost_mesh npy left (M t) else M t) t0 _ Hb).
  - apply (qc_rows_DR (fun t i' j' => reflect (A t) (H t) ((if sym then ghost_mesh npy left (M t) else M t) i' j'))).
    intros a1 b1 c1. apply reflect_DR; try assumption. intros k; apply Hb.
  - apply (qc_rows_DR (fun t => if sym then ghost_mesh npy left (M t) else M t) t0 _ Hb).
Qed.
Lemma get_vectors_DR P V t0 p v e i j d : DR2 P t0 p -> DR3 V t0 v -> DR (fun t => get_vectors (P t) (V t) e i j d) t0 (get_vectors p v e i j d).
Proof. intros. unfold get_vectors. dr. Qed.

(* ---------------- the kernels ---------------- *)
Definition nz3 (v : nat -> R) : Prop := 0 < dot v v.
Lemma nrm_neq0 v : nz3 v -> nrm v <> 0.
Proof. intros H. unfold nrm; rops. apply Rgt_not_eq, sqrt_lt_R0. exact H. Qed.

(* a vortex segment seen from a point that is not (numerically) on its extension *)
Lemma fv_DR R1 R2 t0 r1 r2 d : DRv R1 t0 r1 -> DRv R2 t0 r2 -> nz3 (R1 t0) -> nz3 (R2 t0) ->
  vtol < Rabs (nrm (R1 t0) * nrm (R2 t0) + dot (R1 t0) (R2 t0)) ->
  DR (fun t => fv (R1 t) (R2 t) d) t0 (fv r1 r2 d).
Proof.
  intros H1 H2 Hn1 Hn2 Hden. unfold fv. cbv zeta.
  assert (Hd : DR (fun t => nrm (R1 t) *! nrm (R2 t) +! dot (R1 t) (R2 t)) t0 (nrm r1 *! nrm r2 +! dot r1 r2)).
  { dr; try (apply DR_nrm; [assumption | first [exact Hn1 | exact Hn2]]); try (apply DR_dot; assumption); cbv beta; first [exact Hn1 | exact Hn2]. }
  assert (Hv : 0 < @vtol R Rops) by (unfold vtol, ofrac; rops; lra).
  assert (Hnz : nrm (R1 t0) * nrm (R2 t0) + dot (R1 t0) (R2 t0) <> 0).
  { intros E. rewrite E, Rabs_R0 in Hden. lra. }
  apply DR_if_ltb.
  - unfold vtol. dr.
  - apply DR_abs; [exact Hd | exact Hnz].
  - cbv beta. rops. lra.
  - dr; cbv beta; try (apply DR_nrm; [assumption | first [exact Hn1 | exact Hn2]]); try (apply nrm_neq0; assumption); try (apply DRv_cross; assumption); try exact Hd; try exact Hn1; try exact Hn2.
    rops. apply Rmult_integral_contrapositive_currified; [apply Rmult_integral_contrapositive_currified; [exact Hnz | lra] | pose proof PI_RGT_0; lra].
  - apply DR_o0.
Qed.
(* a semi-infinite filament from r along u, seen from a point not on the filament *)
Lemma semi_DR U Rr t0 u r d : DRv U t0 u -> DRv Rr t0 r -> nz3 (Rr t0) -> nrm (Rr t0) - dot (U t0) (Rr t0) <> 0 ->
  DR (fun t => semi (U t) (Rr t) d) t0 (semi u r d).
Proof.
  intros HU HR Hn Hd. unfold semi. cbv zeta.
  dr; cbv beta; try (apply DRv_cross; assumption); try (apply DR_nrm; [assumption | exact Hn]); try (apply DR_dot; assumption); try exact Hn.
  - rops. apply Rmult_integral_contrapositive_currified; [apply nrm_neq0; exact Hn | exact Hd].
  - rops; lra.
  - rops. pose proof PI_RGT_0; lra.
Qed.
Lemma wake_u_DRv A t0 a : DR A t0 a -> DRv (fun t => wake_u (A t)) t0 (wake_u a).
Proof. intros. unfold wake_u. cbv zeta. apply DRv_mk3; dr; rops; lra. Qed.

Definition seg_ok (a b : nat -> R) : Prop := nz3 a /\ nz3 b /\ vtol < Rabs (nrm a * nrm b + dot a b).
Definition semi_ok (u r : nat -> R) : Prop := nz3 r /\ nrm r - dot u r <> 0.

Section EVM.
  Variables (npx npy : nat) (sym ground right : bool).
  Variables (A : R -> R) (V : R -> nat -> nat -> nat -> nat -> R) (t0 : R) (a : dual R) (v : nat -> nat -> nat -> nat -> dual R).
  Hypotheses (HA : DR A t0 a) (HV : DR4 V t0 v).
  Let vt := vtx npx (V t0).
  Let u0 := wake_u (A t0).
  (* admissible geometry: no evaluation point lies on (the extension of) a vortex segment or on a wake filament *)
  Definition ring_ok (b e i j : nat) : Prop :=
    seg_ok (vt b e i (S j)) (vt b e i j) /\ seg_ok (vt b e i j) (vt b e (S i) j) /\
    seg_ok (vt b e (S i) j) (vt b e (S i) (S j)) /\ seg_ok (vt b e (S i) (S j)) (vt b e i (S j)).
  Definition trail_ok (b e j : nat) : Prop :=
    seg_ok (vt b e npx (S j)) (vt b e npx j) /\ semi_ok u0 (vt b e npx (S j)) /\ semi_ok u0 (vt b e npx j).
  Hypotheses (Hring : forall b e i j, ring_ok b e i j) (Htrail : forall b e j, trail_ok b e j).

  Lemma vtx_DRv b e i j : DRv (fun t => vtx npx (V t) b e i j) t0 (vtx npx v b e i j).
  Proof. intros d. unfold vtx. apply HV. Qed.
  Lemma ring_raw_DR b e i j d : DR (fun t => ring_raw npx (V t) b e i j d) t0 (ring_raw npx v b e i j d).
  Proof.
    unfold ring_raw. cbv zeta. destruct (Hring b e i j) as [[a1 [a2 a3]] [[b1 [b2 b3]] [[c1 [c2 c3]] [d1 [d2 d3]]]]].
    dr; apply fv_DR; try apply vtx_DRv; assumption.
  Qed.
  Lemma t1_raw_DR b e j d : DR (fun t => t1_raw npx (V t) b e j d) t0 (t1_raw npx v b e j d).
  Proof. unfold t1_raw. destruct (Htrail b e j) as [[a1 [a2 a3]] _]. apply fv_DR; try apply vtx_DRv; assumption. Qed.
  Lemma t2_raw_DR b e j d : DR (fun t => t2_raw npx (A t) (V t) b e j d) t0 (t2_raw npx a v b e j d).
  Proof. unfold t2_raw. destruct (Htrail b e j) as [_ [[a1 a2] _]]. apply semi_DR; try apply vtx_DRv; try (apply wake_u_DRv; exact HA); assumption. Qed.
  Lemma t3_raw_DR b e j d : DR (fun t => t3_raw npx (A t) (V t) b e j d) t0 (t3_raw npx a v b e j d).
  Proof. unfold t3_raw. destruct (Htrail b e j) as [_ [_ [a1 a2]]]. apply semi_DR; try apply vtx_DRv; try (apply wake_u_DRv; exact HA); assumption. Qed.

  Lemma block_contrib_DR Acc acc b Mu mu e i j d : DR Acc t0 acc -> DR Mu t0 mu ->
    DR (fun t => block_contrib npx npy sym (A t) (V t) (Acc t) b (Mu t) e i j d) t0 (block_contrib npx npy sym a v acc b mu e i j d).
  Proof.
    intros Hacc Hmu. unfold block_contrib. cbv zeta.
    destruct sym; destruct (S i =? npx)%nat; dr; first [apply ring_raw_DR | apply t1_raw_DR | apply t2_raw_DR | apply t3_raw_DR].
  Qed.
  Lemma vel_mtx_unflipped_DR e i j d :
    DR (fun t => vel_mtx_unflipped npx npy sym ground (A t) (V t) e i j d) t0 (vel_mtx_unflipped npx npy sym ground a v e i j d).
  Proof.
    unfold vel_mtx_unflipped. cbv zeta.
    assert (H0 : DR (fun t => block_contrib npx npy sym (A t) (V t) o0 0 o1 e i j d) t0 (block_contrib npx npy sym a v o0 0 o1 e i j d)).
    { apply (block_contrib_DR (fun _ => o0) o0 0 (fun _ => o1) o1); dr. }
    destruct ground; [| exact H0].
    apply (block_contrib_DR (fun t => block_contrib npx npy sym (A t) (V t) o0 0 o1 e i j d) _ 1 (fun _ => oopp o1) (oopp o1)); [exact H0 | dr].
  Qed.
  Theorem vel_mtx_DR e i j d :
    DR (fun t => vel_mtx npx npy sym ground right (A t) (V t) e i j d) t0 (vel_mtx npx npy sym ground right a v e i j d).
  Proof. unfold vel_mtx. destruct (sym && right)%bool; apply vel_mtx_unflipped_DR. Qed.
End EVM.

(* ---------------- VLMGeometry ---------------- *)
Section Geom.
  Variables (npx npy : nat) (sym projected : bool).
  Variables (M : R -> nat -> nat -> nat -> R) (t0 : R) (m : nat -> nat -> nat -> dual R).
  Hypothesis HM : DR3 M t0 m.
  Let m0 := M t0.
  Definition sq3 (f : nat -> R) : R := osq (f 0%nat) + osq (f 1%nat) + osq (f 2%nat).
  Lemma g_bpts_DR i j d : DR (fun t => g_bpts (M t) i j d) t0 (g_bpts m i j d).
  Proof. unfold g_bpts, c025, c075. dr. Qed.
  Lemma g_qc_DR j d : DR (fun t => g_qc npx (M t) j d) t0 (g_qc npx m j d).
  Proof. unfold g_qc, c025, c075. dr. Qed.
  Lemma g_lengths_spanwise_DR j : 0 < sq3 (fun d => g_qc npx m0 (S j) d - g_qc npx m0 j d) ->
    DR (fun t => g_lengths_spanwise npx (M t) j) t0 (g_lengths_spanwise npx m j).
  Proof. intros Hp. unfold g_lengths_spanwise. apply DR_sqrt; [dr; apply g_qc_DR | exact Hp]. Qed.
  Lemma g_widths_DR j : 0 < osq (g_qc npx m0 (S j) 1%nat - g_qc npx m0 j 1%nat) + osq (g_qc npx m0 (S j) 2%nat - g_qc npx m0 j 2%nat) ->
    DR (fun t => g_widths npx (M t) j) t0 (g_widths npx m j).
  Proof. intros Hp. unfold g_widths. apply DR_sqrt; [dr; apply g_qc_DR | exact Hp]. Qed.
  Lemma g_lengths_DR j : (forall i, (i < npx)%nat -> 0 < sq3 (fun d => m0 (S i) j d - m0 i j d)) ->
    DR (fun t => g_lengths npx (M t) j) t0 (g_lengths npx m j).
  Proof. intros Hp. unfold g_lengths. apply DR_sumn; intros i Hi. apply DR_sqrt; [dr | exact (Hp i Hi)]. Qed.
  Lemma g_chords_DR j : 0 < sq3 (fun d => m0 0%nat j d - m0 npx j d) -> DR (fun t => g_chords npx (M t) j) t0 (g_chords npx m j).
  Proof. intros Hp. unfold g_chords. apply DR_sqrt; [dr | exact Hp]. Qed.

  Section AnyMesh.
    Variables (Mm : R -> nat -> nat -> nat -> R) (mm : nat -> nat -> nat -> dual R).
    Hypothesis HMm : DR3 Mm t0 mm.
    Lemma g_ncross_DRv i j : DRv (fun t => g_ncross (Mm t) i j) t0 (g_ncross mm i j).
    Proof. unfold g_ncross. apply DRv_cross; intros d; dr. Qed.
    Lemma g_nnorm_DR i j : 0 < sq3 (g_ncross (Mm t0) i j) -> DR (fun t => g_nnorm (Mm t) i j) t0 (g_nnorm mm i j).
    Proof. intros Hp. unfold g_nnorm. cbv zeta. apply DR_sqrt; [dr; apply g_ncross_DRv | exact Hp]. Qed.
  End AnyMesh.
  Lemma g_normals_DR i j d : 0 < sq3 (g_ncross m0 i j) -> DR (fun t => g_normals (M t) i j d) t0 (g_normals m i j d).
  Proof.
    intros Hp. unfold g_normals. apply DR_div; [apply g_ncross_DRv; exact HM | apply g_nnorm_DR; assumption |].
    cbv beta. unfold g_nnorm. cbv zeta. rops. apply Rgt_not_eq, sqrt_lt_R0. exact Hp.
  Qed.
  Lemma g_proj_DR3 : DR3 (fun t => g_proj (M t)) t0 (g_proj m).
  Proof. intros i j d. unfold g_proj. destruct (d =? 2)%nat; dr. Qed.
  (* admissible: every (projected) panel has non-zero area *)
  Lemma g_Sref_DR :
    (forall i j, (i < npx)%nat -> (j < npy)%nat -> 0 < sq3 (g_ncross (if projected then g_proj m0 else m0) i j)) ->
    DR (fun t => g_Sref npx npy sym projected (M t)) t0 (g_Sref npx npy sym projected m).
  Proof.
    intros Hp. unfold g_Sref. cbv zeta.
    assert (Hs : DR (fun t => ohalf *! rsum npx (fun i => rsum npy (fun j => g_nnorm (if projected then g_proj (M t) else M t) i j))) t0
                    (ohalf *! @sumn _ DOPS npx (fun i => @sumn _ DOPS npy (fun j => g_nnorm (if projected then g_proj m else m) i j)))).
    { apply DR_mul; [dr|]. apply DR_sumn; intros i Hi. apply DR_sumn; intros j Hj.
      destruct projected; apply g_nnorm_DR; try exact HM; try exact g_proj_DR3; apply (Hp i j Hi Hj). }
    destruct sym; [apply DR_mul; [exact Hs | dr] | exact Hs].
  Qed.
End Geom.

(* ---------------- onset flow ---------------- *)
Lemma freestream_DR A B V t0 a b v d : DR A t0 a -> DR B t0 b -> DR V t0 v -> DR (fun t => freestream (A t) (B t) (V t) d) t0 (freestream a b v d).
Proof. intros. unfold freestream. cbv zeta. apply DR_mul; [assumption|]. apply DRv_mk3; dr; rops; lra. Qed.
Lemma rot_vel_DR Om Cg P t0 om cg p d : DRv Om t0 om -> DRv Cg t0 cg -> DRv P t0 p -> DR (fun t => rot_vel (Om t) (Cg t) (P t) d) t0 (rot_vel om cg p d).
Proof. intros H1 H2 H3. unfold rot_vel. apply DRv_cross; [exact H1 | intros k; dr; first [apply H3 | apply H2]]. Qed.
Lemma onset_velocity_DR rot A B V Om Cg P t0 a b v om cg p d : DR A t0 a -> DR B t0 b -> DR V t0 v -> DRv Om t0 om -> DRv Cg t0 cg -> DRv P t0 p ->
  DR (fun t => onset_velocity rot (A t) (B t) (V t) (Om t) (Cg t) (P t) d) t0 (onset_velocity rot a b v om cg p d).
Proof. intros. unfold onset_velocity. destruct rot; dr; first [apply freestream_DR | apply rot_vel_DR]; assumption. Qed.

(* ---------------- system, circulations, velocities, forces, coefficients ---------------- *)
Lemma aic_mtx_DR Vm Nm t0 vm nm p q : DR3 Vm t0 vm -> DR2 Nm t0 nm -> DR (fun t => aic_mtx (Vm t) (Nm t) p q) t0 (aic_mtx vm nm p q).
Proof. intros. unfold aic_mtx. dr. Qed.
Lemma aic_rhs_DR Fs Nm t0 fs nm p : DR2 Fs t0 fs -> DR2 Nm t0 nm -> DR (fun t => aic_rhs (Fs t) (Nm t) p) t0 (aic_rhs fs nm p).
Proof. intros. unfold aic_rhs. dr. Qed.
(* the residual of SolveMatrix: dR/dcirc = mtx, dR/dmtx[p,q] = circ[q], dR/drhs = -1 all come out of this *)
Lemma solve_residual_DR n Mt Rh Ci t0 mt rh ci p : DR2 Mt t0 mt -> DR1 Rh t0 rh -> DR1 Ci t0 ci ->
  DR (fun t => solve_residual n (Mt t) (Rh t) (Ci t) p) t0 (solve_residual n mt rh ci p).
Proof. intros. unfold solve_residual. dr. Qed.
Lemma horseshoe_DR npy Ci t0 ci i j : DR2 Ci t0 ci -> DR (fun t => horseshoe npy (Ci t) i j) t0 (horseshoe npy ci i j).
Proof. intros. unfold horseshoe. destruct i; dr. Qed.
Lemma eval_velocity_DR n Fs Vm Ci t0 fs vm ci p d : DR2 Fs t0 fs -> DR3 Vm t0 vm -> DR1 Ci t0 ci ->
  DR (fun t => eval_velocity n (Fs t) (Vm t) (Ci t) p d) t0 (eval_velocity n fs vm ci p d).
Proof. intros. unfold eval_velocity. dr. Qed.
Lemma panel_force_DR Rho Hs Ve Bv t0 rho hs ve bv p d : DR Rho t0 rho -> DR1 Hs t0 hs -> DR2 Ve t0 ve -> DR2 Bv t0 bv ->
  DR (fun t => panel_force (Rho t) (Hs t) (Ve t) (Bv t) p d) t0 (panel_force rho hs ve bv p d).
Proof. intros H1 H2 H3 H4. unfold panel_force. dr; first [apply H3 | apply H4]. Qed.
Lemma lift_DR np sym A F t0 a f : DR A t0 a -> DR2 F t0 f -> DR (fun t => lift np sym (A t) (F t)) t0 (lift np sym a f).
Proof. intros. unfold lift. cbv zeta. destruct sym; dr; rops; lra. Qed.
Lemma drag_DR np sym A B F t0 a b f : DR A t0 a -> DR B t0 b -> DR2 F t0 f -> DR (fun t => drag np sym (A t) (B t) (F t)) t0 (drag np sym a b f).
Proof. intros. unfold drag. cbv zeta. destruct sym; dr; rops; lra. Qed.
Lemma coeff_DR X Rho V S t0 x rho v s : DR X t0 x -> DR Rho t0 rho -> DR V t0 v -> DR S t0 s -> ohalf * Rho t0 * (V t0 * V t0) * S t0 <> 0 ->
  DR (fun t => coeff (X t) (Rho t) (V t) (S t)) t0 (coeff x rho v s).
Proof. intros. unfold coeff. dr. assumption. Qed.
Lemma total_lift_coeff_DR C1 C0 t0 c1 c0 : DR C1 t0 c1 -> DR C0 t0 c0 -> DR (fun t => total_lift_coeff (C1 t) (C0 t)) t0 (total_lift_coeff c1 c0).
Proof. intros. unfold total_lift_coeff. dr. Qed.

(* ---------------- the chain def_mesh, alpha, beta, v, circulations -> residual of the VLM system (one surface) ----------------
   composition of the component theorems above: the curve-form statements take the outputs of upstream components
   as their input curves, which is the chain rule *)
Section ChainD.
  Variables (npx npy : nat) (sym left : bool).
  Variables (Al Be V : R -> R) (M : R -> nat -> nat -> nat -> R) (C : R -> nat -> R) (t0 : R).
  Variables (al be v : dual R) (m : nat -> nat -> nat -> dual R) (c : nat -> dual R).
  Hypotheses (HA : DR Al t0 al) (HB : DR Be t0 be) (HV : DR V t0 v) (HM : DR3 M t0 m) (HC : DR1 C t0 c).
  Hypothesis Hnpy : (0 < npy)%nat.
  (* admissible geometry: panels of non-zero area; no collocation point on (the extension of) a vortex segment or wake filament *)
  Hypothesis Hpanels : forall i j, (i < npx)%nat -> (j < npy)%nat -> 0 < sq3 (g_ncross (M t0) i j).
  Hypothesis Hring : forall b e i j, ring_ok npx (fun t => chain_vectors npx npy sym left (M t)) t0 b e i j.
  Hypothesis Htrail : forall b e j, trail_ok npx Al (fun t => chain_vectors npx npy sym left (M t)) t0 b e j.

  Lemma chain_vectors_DR4 : DR4 (fun t => chain_vectors npx npy sym left (M t)) t0 (chain_vectors npx npy sym left m).
  Proof.
    intros e i j d. unfold chain_vectors. apply get_vectors_DR.
    - intros e' d'. apply coll_pts_DR. exact HM.
    - intros i' j' d'. apply (vortex_mesh_DR npx npy sym false left (fun _ => o0) (fun _ => o0)); [apply DR_o0 | apply DR_o0 | exact HM].
  Qed.
  Lemma chain_velm_DR p q d : DR (fun t => chain_velm npx npy sym left (Al t) (M t) p q d) t0 (chain_velm npx npy sym left al m p q d).
  Proof.
    unfold chain_velm.
    apply (vel_mtx_DR npx npy sym false (negb left) Al (fun t => chain_vectors npx npy sym left (M t)) t0 al (chain_vectors npx npy sym left m) HA chain_vectors_DR4 Hring Htrail).
  Qed.
  Lemma chain_normals_DR p d : (p < npx * npy)%nat -> DR (fun t => chain_normals npy (M t) p d) t0 (chain_normals npy m p d).
  Proof.
    intros Hp. unfold chain_normals. apply g_normals_DR; [exact HM|]. apply Hpanels.
    - apply Nat.div_lt_upper_bound; lia.
    - apply Nat.mod_upper_bound; lia.
  Qed.
  Lemma chain_aic_DR p q : (p < npx * npy)%nat -> DR (fun t => chain_aic npx npy sym left (Al t) (M t) p q) t0 (chain_aic npx npy sym left al m p q).
  Proof. intros Hp. unfold chain_aic, aic_mtx. dr; first [apply chain_velm_DR | apply chain_normals_DR; exact Hp]. Qed.
  Lemma chain_rhs_DR p : (p < npx * npy)%nat -> DR (fun t => chain_rhs npy (Al t) (Be t) (V t) (M t) p) t0 (chain_rhs npy al be v m p).
  Proof. intros Hp. unfold chain_rhs, aic_rhs. dr; first [apply freestream_DR; assumption | apply chain_normals_DR; exact Hp]. Qed.
  Theorem chain_residual_DR p : (p < npx * npy)%nat ->
    DR (fun t => chain_residual npx npy sym left (Al t) (Be t) (V t) (M t) (C t) p) t0 (chain_residual npx npy sym left al be v m c p).
  Proof. intros Hp. unfold chain_residual, solve_residual. dr; first [apply chain_aic_DR; exact Hp | apply chain_rhs_DR; exact Hp]. Qed.
End ChainD.
