(* AdjointProofs.v — forward and reverse totals coincide for ANY solutions of the two linear systems (no inverse
   is needed), exact solutions are unique when the matrix has a left inverse (solver independence), and the
   derivative of the solution of a parametrised linear system is what the forward solve returns. *)
From Coq Require Import Reals ZArith Lra Lia Arith.
From Coquelicot Require Import Coquelicot.
From OAS Require Import Scalar Rops Sums Deriv Dual DualProofs Adjoint.
Open Scope R_scope.

Lemma mmul_assoc n1 n2 (X Y Z : nat -> nat -> R) i j :
  rsum n1 (fun k => X i k * mmul n2 Y Z k j) = rsum n2 (fun l => mmul n1 X Y i l * Z l j).
Proof.
  unfold mmul.
  transitivity (rsum n1 (fun k => rsum n2 (fun l => X i k * (Y k l * Z l j)))).
  { apply rsum_ext; intros k _. rewrite <- rsum_scal. reflexivity. }
  rewrite rsum_exchange. apply rsum_ext; intros l _.
  rewrite <- rsum_scal_r. apply rsum_ext; intros k _. ring.
Qed.

Theorem fwd_eq_rev n m p (A B C D Phi Psi : nat -> nat -> R) :
  solves_fwd n m A B Phi -> solves_rev n p A C Psi ->
  forall i j, (i < p)%nat -> (j < m)%nat -> tot_fwd n C D Phi i j = tot_rev n B D Psi i j.
Proof.
  intros Hf Hr i j Hi Hj. unfold tot_fwd, tot_rev.
  enough (G : mmul n C Phi i j = - mmul n (tr Psi) B i j) by (rewrite G; ring).
  (* C Phi = (A^T Psi)^T Phi = Psi^T (A Phi) = - Psi^T B *)
  assert (E1 : mmul n C Phi i j = rsum n (fun l => mmul n (tr Psi) A i l * Phi l j)).
  { unfold mmul at 1. apply rsum_ext; intros l Hl. f_equal.
    specialize (Hr l i Hl Hi). unfold tr, mmul in *. rewrite <- Hr. apply rsum_ext; intros k _. ring. }
  rewrite E1, <- (mmul_assoc n n (tr Psi) A Phi i j).
  change (mmul n (tr Psi) B i j) with (rsum n (fun k => tr Psi i k * B k j)).
  rewrite <- rsum_opp. apply rsum_ext; intros k Hk. rewrite (Hf k j Hk Hj). ring.
Qed.

(* solver independence: with a left inverse, the solution of A X = Y is unique, whatever produced it *)
Theorem solution_unique n m (A Ainv X1 X2 Y : nat -> nat -> R) :
  (forall i j, (i < n)%nat -> (j < n)%nat -> mmul n Ainv A i j = if (i =? j)%nat then 1 else 0) ->
  (forall i j, (i < n)%nat -> (j < m)%nat -> mmul n A X1 i j = Y i j) ->
  (forall i j, (i < n)%nat -> (j < m)%nat -> mmul n A X2 i j = Y i j) ->
  forall i j, (i < n)%nat -> (j < m)%nat -> X1 i j = X2 i j.
Proof.
  intros Hinv H1 H2 i j Hi Hj.
  assert (G : forall X, (forall a b, (a < n)%nat -> (b < m)%nat -> mmul n A X a b = Y a b) -> X i j = rsum n (fun k => Ainv i k * Y k j)).
  { intros X HX.
    transitivity (rsum n (fun l => mmul n Ainv A i l * X l j)).
    - rewrite (rsum_single n i (fun l => mmul n Ainv A i l * X l j)); [| exact Hi |].
      + rewrite Hinv by assumption. rewrite Nat.eqb_refl. ring.
      + intros l Hl Hne. rewrite Hinv by assumption. assert (E : (i =? l)%nat = false) by (apply Nat.eqb_neq; auto). rewrite E. ring.
    - rewrite <- (mmul_assoc n n Ainv A X i j). apply rsum_ext; intros k Hk. rewrite HX by assumption. reflexivity. }
  rewrite (G X1 H1), (G X2 H2). reflexivity.
Qed.

(* the converged analysis: A(t) u(t) = b(t) for all t, everything differentiable; then u' satisfies the system the
   forward mode solves: A u' = b' - A' u *)
Theorem implicit_linear_derivative n (A : R -> nat -> nat -> R) (b u : R -> nat -> R) t0 (a' : nat -> nat -> dual R) (b' u' : nat -> dual R) :
  (forall i j, DR (fun t => A t i j) t0 (a' i j)) -> (forall i, DR (fun t => b t i) t0 (b' i)) -> (forall i, DR (fun t => u t i) t0 (u' i)) ->
  (forall t i, (i < n)%nat -> rsum n (fun j => A t i j * u t j) = b t i) ->
  forall i, (i < n)%nat -> rsum n (fun j => A t0 i j * snd (u' j)) = snd (b' i) - rsum n (fun j => snd (a' i j) * u t0 j).
Proof.
  intros HA Hb Hu Hsys i Hi.
  assert (H1 : DR (fun t => rsum n (fun j => A t i j *! u t j)) t0 (@sumn _ DOPS n (fun j => a' i j *! u' j))) by dr.
  assert (H2 : is_derive (fun t => rsum n (fun j => A t i j * u t j)) t0 (snd (b' i))).
  { apply (is_derive_ext (fun t => b t i)); [intros t; symmetry; apply Hsys; exact Hi | apply DR_der; apply Hb]. }
  pose proof (is_derive_unique _ _ _ (DR_der _ _ _ H1)) as U1. pose proof (is_derive_unique _ _ _ H2) as U2.
  assert (E : snd (@sumn _ DOPS n (fun j => a' i j *! u' j)) = snd (b' i)).
  { rewrite <- U1. exact U2. }
  assert (S : forall m (f : nat -> dual R), snd (@sumn _ DOPS m f) = rsum m (fun j => snd (f j))).
  { induction m as [|m IH]; intros f; cbn [sumn]; [reflexivity|]. cbn [oadd Dops d_add snd]. rewrite IH. reflexivity. }
  rewrite S in E. cbn [omul Dops d_mul fst snd] in E. rewrite <- E.
  rewrite <- rsum_minus. apply rsum_ext; intros j _.
  rewrite (DR_val _ _ _ (HA i j)), (DR_val _ _ _ (Hu j)). rops. ring.
Qed.
