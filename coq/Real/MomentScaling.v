(* MomentScaling.v — C06: the moment coefficient is invariant under a uniform scaling of all lengths
   (mesh, centre of gravity, reference areas ~ c^2, forces ~ c^2 by C06_forces_scale_with_length_squared). *)
From Coq Require Import Reals ZArith Lra Lia Arith Bool List.
From OAS Require Import Scalar Rops Sums Functionals FunctionalsProofs.
Import ListNotations.
Open Scope R_scope.

Definition ms_scale (c : R) (s : MSurf) : MSurf :=
  mkMSurf (ms_npx s) (ms_npy s) (ms_sym s)
          (fun i j d => c * ms_bpts s i j d) (fun j => c * ms_widths s j) (fun j => c * ms_chords s j)
          (c * c * ms_Sref s) (fun i j d => c * c * ms_F s i j d).

Lemma MAC_scales c s : c <> 0 -> ms_Sref s <> 0 -> ms_MAC (ms_scale c s) = c * ms_MAC s.
Proof.
  intros Hc HS. unfold ms_MAC, ms_scale, osq, ohalf, ofrac, o2; cbn [ms_Sref ms_npy ms_chords ms_widths ms_sym]; rops.
  rewrite (rsum_ext _ _ (fun j => (c * c * c) * ((ms_chords s (S j) + ms_chords s j) * (1 / 2) * ((ms_chords s (S j) + ms_chords s j) * (1 / 2)) * ms_widths s j))).
  2:{ intros j Hj. ring. }
  rewrite rsum_scal. destruct (ms_sym s); field; split; assumption.
Qed.

Lemma cross_scal3 c (a b : nat -> R) d :
  cross (fun k => c * a k) (fun k => c * c * b k) d = c * c * c * cross a b d.
Proof. unfold cross, mk3; rops. destruct d as [|[|d]]; ring. Qed.

Lemma moment_raw_scales c s cg d :
  ms_moment_raw (ms_scale c s) (fun k => c * cg k) d = c * c * c * ms_moment_raw s cg d.
Proof.
  unfold ms_moment_raw. cbn [ms_scale ms_npy ms_npx]. rops.
  rewrite <- rsum_scal. apply rsum_ext; intros j Hj. rewrite <- rsum_scal. apply rsum_ext; intros i Hi.
  rewrite <- cross_scal3. unfold cross, mk3, ms_pts, ohalf, ofrac; cbn [ms_scale ms_bpts ms_F]; rops.
  destruct d as [|[|d]]; ring.
Qed.

Lemma moment_scales c s cg d : ms_moment (ms_scale c s) (fun k => c * cg k) d = c * c * c * ms_moment s cg d.
Proof.
  unfold ms_moment. rewrite moment_raw_scales. cbn [ms_scale ms_sym]. unfold o2; rops.
  destruct (ms_sym s); [destruct (d =? 1)%nat|]; ring.
Qed.

Lemma M_scales c ss cg d : moment_M (map (ms_scale c) ss) (fun k => c * cg k) d = c * c * c * moment_M ss cg d.
Proof.
  rewrite !M_is_sum, rlsum_map, <- rlsum_scal. induction ss as [|s r IH]; [reflexivity|].
  rewrite !rlsum_cons, IH, moment_scales. reflexivity.
Qed.

(* the coefficient: moments scale with c^3, q S_tot MAC with c^2 c *)
Theorem CM_length_scaling_invariant c s0 ss cg rho v S_tot d :
  c <> 0 -> ms_Sref s0 <> 0 -> rho <> 0 -> v <> 0 -> S_tot <> 0 -> ms_MAC s0 <> 0 ->
  moment_CM (map (ms_scale c) (s0 :: ss)) (fun k => c * cg k) rho v (c * c * S_tot) d = moment_CM (s0 :: ss) cg rho v S_tot d.
Proof.
  intros Hc HS Hr Hv HSt HM. unfold moment_CM. rewrite M_scales. cbn [map]. rewrite MAC_scales by assumption.
  unfold ohalf, ofrac; rops. field. repeat split; assumption.
Qed.

(* and the dimensional moment itself is linear in density and quadratic in speed when the forces are *)
Lemma M_force_scaling a ss cg d :
  moment_M (map (fun s => mkMSurf (ms_npx s) (ms_npy s) (ms_sym s) (ms_bpts s) (ms_widths s) (ms_chords s) (ms_Sref s)
                                   (fun i j k => a * ms_F s i j k)) ss) cg d = a * moment_M ss cg d.
Proof.
  rewrite !M_is_sum, rlsum_map, <- rlsum_scal. induction ss as [|s r IH]; [reflexivity|].
  rewrite !rlsum_cons, IH. f_equal.
  unfold ms_moment, ms_moment_raw; cbn [ms_npy ms_npx ms_sym]. unfold o2; rops.
  assert (E : rsum (ms_npy s) (fun j => rsum (ms_npx s) (fun i =>
              cross (fun k => ms_pts {| ms_npx := ms_npx s; ms_npy := ms_npy s; ms_sym := ms_sym s; ms_bpts := ms_bpts s; ms_widths := ms_widths s;
                                        ms_chords := ms_chords s; ms_Sref := ms_Sref s; ms_F := fun i0 j0 k0 => a * ms_F s i0 j0 k0 |} i j k - cg k)
                    (fun k => a * ms_F s i j k) d))
            = a * rsum (ms_npy s) (fun j => rsum (ms_npx s) (fun i => cross (fun k => ms_pts s i j k - cg k) (ms_F s i j) d))).
  { rewrite <- rsum_scal. apply rsum_ext; intros j Hj. rewrite <- rsum_scal. apply rsum_ext; intros i Hi.
    unfold cross, mk3, ms_pts; cbn [ms_bpts]; rops. destruct d as [|[|d]]; ring. }
  cbn [ms_F]. rewrite E. destruct (ms_sym s); [destruct (d =? 1)%nat|]; ring.
Qed.
