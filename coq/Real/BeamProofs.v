(* BeamProofs.v — the structural chain against the textbook frame element (C10, C02). *)
From Coq Require Import Reals ZArith Lra Lia Arith Bool List.
From OAS Require Import Scalar Rops Sums Stress Vec3 BeamTables Beam FrameElement.
Import ListNotations.
Open Scope R_scope.

(* ---------------- the DOF permutation ---------------- *)
Lemma perm_is_permutation :
  forallb (fun l => Nat.eqb (inv_col (col_of l)) l) (seq 0 12) = true /\
  forallb (fun j => Nat.eqb (col_of (inv_col j)) j) (seq 0 12) = true /\
  forallb (fun l => Nat.ltb (col_of l) 12) (seq 0 12) = true.
Proof. repeat split; vm_compute; reflexivity. Qed.

Ltac case12 i := destruct i as [|[|[|[|[|[|[|[|[|[|[|[|i]]]]]]]]]]]]; try lia.

(* ---------------- element matrix = textbook frame element ---------------- *)
Lemma permuted_local_stiff_eq_textbook E G A J Iy Iz L i j : L <> 0 -> (i < 12)%nat -> (j < 12)%nat ->
  permuted (local_stiff E G A J Iy Iz L) i j = frame_element E G A J Iy Iz L i j.
Proof.
  intros HL Hi Hj. case12 i; case12 j;
    unfold permuted;
    repeat (match goal with |- context [inv_col ?k] => let v := eval vm_compute in (inv_col k) in change (inv_col k) with v end);
    unfold local_stiff, frame_element, tbl, lscale, oddb, pair_sign, rnth2, bend_xy, bend_xz;
    cbn [Nat.ltb Nat.leb Nat.eqb Nat.sub Nat.add Nat.mul Nat.div Nat.modulo Nat.divmod fst snd Nat.odd Nat.even negb andb nth
         gen_coeffs_2 gen_coeffs_y gen_coeffs_z];
    rops; try (field; exact HL); try reflexivity.
Qed.

(* the textbook element is symmetric, hence so is the code's permuted element *)
Lemma frame_element_symmetric E G A J Iy Iz L i j : (i < 12)%nat -> (j < 12)%nat ->
  frame_element E G A J Iy Iz L i j = frame_element E G A J Iy Iz L j i.
Proof.
  intros Hi Hj. case12 i; case12 j; unfold frame_element, pair_sign, rnth2, bend_xy, bend_xz;
    cbn [Nat.eqb Nat.add Nat.mul Nat.div Nat.modulo Nat.divmod fst snd nth]; try reflexivity; ring.
Qed.

Lemma permuted_local_stiff_symmetric E G A J Iy Iz L i j : L <> 0 -> (i < 12)%nat -> (j < 12)%nat ->
  permuted (local_stiff E G A J Iy Iz L) i j = permuted (local_stiff E G A J Iy Iz L) j i.
Proof.
  intros HL Hi Hj. rewrite !permuted_local_stiff_eq_textbook by assumption. apply frame_element_symmetric; assumption.
Qed.

(* ---------------- direction cosines ---------------- *)
Section Tr.
  Variables P0 P1 : nat -> R.
  Let dP := vsub P1 P0.
  Hypothesis Hlen : 0 < dot dP dP.
  Hypothesis Hnpar : 0 < dP 1%nat * dP 1%nat + dP 2%nat * dP 2%nat.

  Lemma tr_row_orthonormal r s : (r < 3)%nat -> (s < 3)%nat ->
    dot (tr_row P0 P1 r) (tr_row P0 P1 s) = if (r =? s)%nat then 1 else 0.
  Proof.
    intros Hr Hs.
    pose proof (frame_xx P0 P1 Hlen) as Hxx. pose proof (frame_yy P0 P1 Hlen Hnpar) as Hyy.
    pose proof (frame_xy P0 P1 Hlen Hnpar) as Hxy.
    pose proof (frame_cxy_unit P0 P1 Hlen Hnpar) as Hzz.
    set (x := loc_x P0 P1) in *. set (y := loc_y P0 P1) in *.
    assert (Hxz : dot x (cross x y) = 0) by apply cross_perp_l.
    assert (Hyz : dot y (cross x y) = 0) by apply cross_perp_r.
    destruct r as [|[|[|r]]]; try lia; destruct s as [|[|[|s]]]; try lia; unfold tr_row; fold x y; cbn [Nat.eqb];
      try assumption; rewrite dot_comm; assumption.
  Qed.
End Tr.

(* ---------------- congruence and assembly preserve symmetry ---------------- *)
Lemma transformed_symmetric (Tm Kp : nat -> nat -> R) j k :
  (forall l m, (l < 12)%nat -> (m < 12)%nat -> Kp l m = Kp m l) ->
  transformed Tm Kp j k = transformed Tm Kp k j.
Proof.
  intros H. unfold transformed. rops. rewrite rsum_exchange.
  apply rsum_ext; intros m Hm. apply rsum_ext; intros l Hl. rewrite (H l m Hl Hm). ring.
Qed.

Lemma assembled_symmetric ne (kloc : nat -> nat -> nat -> R) a r b c :
  (forall e i j, (e < ne)%nat -> kloc e i j = kloc e j i) ->
  assembled ne kloc a r b c = assembled ne kloc b c a r.
Proof.
  intros H. unfold assembled. apply rsum_ext; intros e He.
  rewrite (andb_comm (in_elem e a) (in_elem e b)). destruct (in_elem e b && in_elem e a); [apply H, He | reflexivity].
Qed.

Lemma K_aug_symmetric ne root (kloc : nat -> nat -> nat -> R) p q :
  (forall e i j, (e < ne)%nat -> kloc e i j = kloc e j i) ->
  K_aug ne root kloc p q = K_aug ne root kloc q p.
Proof.
  intros H. unfold K_aug. set (nd := (6 * S ne)%nat).
  destruct (p <? nd)%nat eqn:Ep, (q <? nd)%nat eqn:Eq; cbn [andb].
  - apply assembled_symmetric, H.
  - replace (nd <=? q)%nat with true by (symmetry; apply Nat.leb_le; apply Nat.ltb_ge in Eq; exact Eq).
    replace (nd <=? p)%nat with false by (symmetry; apply Nat.leb_gt; apply Nat.ltb_lt in Ep; exact Ep). cbn [andb].
    replace (nd <=? q)%nat with true by (symmetry; apply Nat.leb_le; apply Nat.ltb_ge in Eq; exact Eq). reflexivity.
  - replace (nd <=? p)%nat with true by (symmetry; apply Nat.leb_le; apply Nat.ltb_ge in Ep; exact Ep).
    replace (nd <=? q)%nat with false by (symmetry; apply Nat.leb_gt; apply Nat.ltb_lt in Eq; exact Eq). cbn [andb].
    replace (nd <=? p)%nat with true by (symmetry; apply Nat.leb_le; apply Nat.ltb_ge in Ep; exact Ep). reflexivity.
  - replace (nd <=? p)%nat with true by (symmetry; apply Nat.leb_le; apply Nat.ltb_ge in Ep; exact Ep).
    replace (nd <=? q)%nat with true by (symmetry; apply Nat.leb_le; apply Nat.ltb_ge in Eq; exact Eq). reflexivity.
Qed.

(* ---------------- the clamped root ---------------- *)
Section Clamp.
  Variables (ne root : nat) (kloc : nat -> nat -> nat -> R) (forces u : nat -> R).
  Let ny := S ne. Let nd := (6 * ny)%nat. Let N := (nd + 6)%nat.
  Hypothesis Hroot : (root <= ne)%nat.
  Hypothesis Hsol : forall p, (p < N)%nat -> fem_residual ne root kloc forces u p = 0.
  Hypothesis Hf : forall r, (r < 6)%nat -> forces (nd + r)%nat = 0.
  Hypothesis Hw : @gen_clamp_weight R Rops <> 0.

  Lemma N_eq : (6 * S ne + 6)%nat = N. Proof. reflexivity. Qed.

  (* Lagrange rows: weight * u_root,r = 0 *)
  Lemma root_is_clamped r : (r < 6)%nat -> u (6 * root + r)%nat = 0.
  Proof.
    intros Hr. specialize (Hsol (nd + r)%nat ltac:(unfold N; lia)).
    unfold fem_residual in Hsol. rops. rewrite N_eq in Hsol. rewrite Hf in Hsol by exact Hr.
    rewrite (rsum_single N (6 * root + r)%nat) in Hsol.
    - unfold K_aug in Hsol. fold ny nd in Hsol.
      replace (nd + r <? nd)%nat with false in Hsol by (symmetry; apply Nat.ltb_ge; lia).
      replace (nd <=? nd + r)%nat with true in Hsol by (symmetry; apply Nat.leb_le; lia).
      replace (6 * root + r <? nd)%nat with true in Hsol by (symmetry; apply Nat.ltb_lt; unfold nd, ny; lia).
      cbn [andb] in Hsol.
      replace (6 * root + r =? 6 * root + (nd + r - nd))%nat with true in Hsol by (symmetry; apply Nat.eqb_eq; lia).
      assert (gen_clamp_weight * u (6 * root + r)%nat = 0) by lra.
      apply Rmult_integral in H. destruct H; [contradiction | assumption].
    - unfold N, nd, ny; lia.
    - intros q Hq Hne. unfold K_aug. fold ny nd.
      replace (nd + r <? nd)%nat with false by (symmetry; apply Nat.ltb_ge; lia).
      replace (nd <=? nd + r)%nat with true by (symmetry; apply Nat.leb_le; lia). cbn [andb].
      destruct (q <? nd)%nat; cbn [andb]; rops; [|ring].
      replace (q =? 6 * root + (nd + r - nd))%nat with false by (symmetry; apply Nat.eqb_neq; lia). ring.
  Qed.

  (* every other DOF is in equilibrium with the applied nodal load: (K u)_p = f_p *)
  Lemma free_dofs_in_equilibrium p : (p < nd)%nat -> (forall r, (r < 6)%nat -> p <> (6 * root + r)%nat) ->
    rsum nd (fun q => assembled ne kloc (p / 6) (p mod 6) (q / 6) (q mod 6) * u q) = forces p.
  Proof.
    intros Hp Hnr. specialize (Hsol p ltac:(unfold N; lia)).
    unfold fem_residual in Hsol. rops. rewrite N_eq in Hsol. unfold N in Hsol. rewrite rsum_split in Hsol.
    rewrite (rsum_zero 6) in Hsol.
    - rewrite (rsum_ext nd _ (fun q => assembled ne kloc (p / 6) (p mod 6) (q / 6) (q mod 6) * u q)) in Hsol; [lra|].
      intros q Hq. unfold K_aug. fold ny nd. apply Nat.ltb_lt in Hp. apply Nat.ltb_lt in Hq. rewrite Hp, Hq. reflexivity.
    - intros r Hr. unfold K_aug. fold ny nd.
      replace (p <? nd)%nat with true by (symmetry; apply Nat.ltb_lt; exact Hp).
      replace (nd + r <? nd)%nat with false by (symmetry; apply Nat.ltb_ge; lia).
      replace (nd <=? nd + r)%nat with true by (symmetry; apply Nat.leb_le; lia). cbn [andb].
      replace (p =? 6 * root + (nd + r - nd))%nat with false; [rops; ring|].
      symmetry. apply Nat.eqb_neq. replace (nd + r - nd)%nat with r by lia. apply Hnr, Hr.
  Qed.
End Clamp.

(* ---------------- consequences of the symmetry of K ---------------- *)
Section SymK.
  Variables (n : nat) (Km : nat -> nat -> R).
  Hypothesis Ksym : forall p q, (p < n)%nat -> (q < n)%nat -> Km p q = Km q p.

  (* x^T (K y) = y^T (K x) *)
  Lemma bilinear_symmetric (x y : nat -> R) :
    rsum n (fun p => x p * rsum n (fun q => Km p q * y q)) = rsum n (fun p => y p * rsum n (fun q => Km p q * x q)).
  Proof.
    rewrite (rsum_ext n _ (fun p => rsum n (fun q => x p * Km p q * y q))) by (intros; rewrite <- rsum_scal; apply rsum_ext; intros; ring).
    rewrite rsum_exchange. apply rsum_ext; intros q Hq.
    rewrite <- rsum_scal. apply rsum_ext; intros p Hp. rewrite (Ksym p q Hp Hq). ring.
  Qed.

  (* Maxwell-Betti: the work of load set 1 on displacements 2 equals that of load set 2 on displacements 1 *)
  Lemma maxwell_betti (u1 u2 f1 f2 : nat -> R) :
    (forall p, (p < n)%nat -> rsum n (fun q => Km p q * u1 q) = f1 p) ->
    (forall p, (p < n)%nat -> rsum n (fun q => Km p q * u2 q) = f2 p) ->
    rsum n (fun p => u2 p * f1 p) = rsum n (fun p => u1 p * f2 p).
  Proof.
    intros H1 H2.
    rewrite (rsum_ext n (fun p => u2 p * f1 p) (fun p => u2 p * rsum n (fun q => Km p q * u1 q))) by (intros; rewrite H1; auto).
    rewrite (rsum_ext n (fun p => u1 p * f2 p) (fun p => u1 p * rsum n (fun q => Km p q * u2 q))) by (intros; rewrite H2; auto).
    apply bilinear_symmetric.
  Qed.

  (* reverse-mode linear solve: a solution of K x = b is a solution of K^T x = b, so re-using the
     factorisation of K in reverse mode (FEM.solve_linear) is correct exactly because K is symmetric *)
  Lemma fem_rev_correct (x b : nat -> R) :
    (forall p, (p < n)%nat -> rsum n (fun q => Km p q * x q) = b p) ->
    forall p, (p < n)%nat -> rsum n (fun q => Km q p * x q) = b p.
  Proof. intros H p Hp. rewrite <- (H p Hp). apply rsum_ext; intros q Hq. rewrite (Ksym q p Hq Hp). reflexivity. Qed.
End SymK.

(* ... and wrong otherwise: a 2x2 witness *)
Lemma fem_rev_refuted_if_unsym :
  exists (Km : nat -> nat -> R) (x b : nat -> R),
    (forall p, (p < 2)%nat -> rsum 2 (fun q => Km p q * x q) = b p) /\
    ~ (forall p, (p < 2)%nat -> rsum 2 (fun q => Km q p * x q) = b p).
Proof.
  exists (fun p q => match p, q with 0%nat, 0%nat => 1 | 0%nat, 1%nat => 1 | 1%nat, 0%nat => 0 | _, _ => 1 end),
         (fun q => 1), (fun p => match p with 0%nat => 2 | _ => 1 end).
  split.
  - intros p Hp. destruct p as [|[|p]]; try lia; cbn [sumn]; rops; lra.
  - intros H. specialize (H 0%nat ltac:(lia)). cbn [sumn] in H. rops. lra.
Qed.

(* linearity of the response in the loads *)
Lemma response_linear n (Km : nat -> nat -> R) (u1 u2 f1 f2 : nat -> R) a b :
  (forall p, (p < n)%nat -> rsum n (fun q => Km p q * u1 q) = f1 p) ->
  (forall p, (p < n)%nat -> rsum n (fun q => Km p q * u2 q) = f2 p) ->
  forall p, (p < n)%nat -> rsum n (fun q => Km p q * (a * u1 q + b * u2 q)) = a * f1 p + b * f2 p.
Proof.
  intros H1 H2 p Hp. rewrite <- H1, <- H2 by exact Hp. rewrite <- !rsum_scal, <- rsum_plus.
  apply rsum_ext; intros; ring.
Qed.

(* the tiny-load threshold of CreateRHS: loads above it pass unchanged, below it they are zeroed *)
Lemma create_rhs_above ny (loads : nat -> nat -> R) p : (p < 6 * ny)%nat ->
  gen_rhs_threshold <= Rabs (loads (p / 6)%nat (p mod 6)%nat) -> create_rhs ny loads p = loads (p / 6)%nat (p mod 6)%nat.
Proof.
  intros Hp H. unfold create_rhs. apply Nat.ltb_lt in Hp. rewrite Hp. rops.
  replace (0 + loads (p / 6)%nat (p mod 6)%nat) with (loads (p / 6)%nat (p mod 6)%nat) by ring.
  replace (Rltb (Rabs (loads (p / 6)%nat (p mod 6)%nat)) gen_rhs_threshold) with false by (symmetry; apply Rltb_false; exact H).
  reflexivity.
Qed.
Lemma create_rhs_below ny (loads : nat -> nat -> R) p :
  Rabs (loads (p / 6)%nat (p mod 6)%nat) < gen_rhs_threshold -> create_rhs ny loads p = 0.
Proof.
  intros H. unfold create_rhs. destruct (p <? 6 * ny)%nat; [|reflexivity]. rops.
  replace (0 + loads (p / 6)%nat (p mod 6)%nat) with (loads (p / 6)%nat (p mod 6)%nat) by ring.
  replace (Rltb (Rabs (loads (p / 6)%nat (p mod 6)%nat)) gen_rhs_threshold) with true by (symmetry; apply Rltb_true; exact H).
  reflexivity.
Qed.

(* ---------------- closed form: one element clamped at node 0, tip force P along local z ---------------- *)
(* free DOFs (w1, ry1) = (8, 10) in the textbook order: K [w1; ry1] = [P; 0] *)
Lemma cantilever_tip_load_exact E G A J Iy Iz L P : L <> 0 -> E <> 0 -> Iy <> 0 ->
  let w1 := P * (L * L * L) / (3 * E * Iy) in
  let ry1 := - (P * (L * L) / (2 * E * Iy)) in
  frame_element E G A J Iy Iz L 8 8 * w1 + frame_element E G A J Iy Iz L 8 10 * ry1 = P /\
  frame_element E G A J Iy Iz L 10 8 * w1 + frame_element E G A J Iy Iz L 10 10 * ry1 = 0.
Proof.
  intros HL HE HI w1 ry1. unfold frame_element, rnth2, bend_xz, w1, ry1.
  cbn [Nat.eqb Nat.add Nat.sub Nat.mul Nat.div Nat.modulo Nat.divmod fst snd nth]. split; field; repeat split; assumption.
Qed.
(* the same in the x-y plane (tip force along local y): (v1, rz1) = (7, 11) *)
Lemma cantilever_tip_load_exact_y E G A J Iy Iz L P : L <> 0 -> E <> 0 -> Iz <> 0 ->
  let v1 := P * (L * L * L) / (3 * E * Iz) in
  let rz1 := P * (L * L) / (2 * E * Iz) in
  frame_element E G A J Iy Iz L 7 7 * v1 + frame_element E G A J Iy Iz L 7 11 * rz1 = P /\
  frame_element E G A J Iy Iz L 11 7 * v1 + frame_element E G A J Iy Iz L 11 11 * rz1 = 0.
Proof.
  intros HL HE HI v1 rz1. unfold frame_element, rnth2, bend_xy, v1, rz1.
  cbn [Nat.eqb Nat.add Nat.sub Nat.mul Nat.div Nat.modulo Nat.divmod fst snd nth]. split; field; repeat split; assumption.
Qed.
