(* TransferDeriv.v — C01 for ComputeNodes, LoadTransfer, ComputeTransformationMatrix, DisplacementTransfer,
   MeshPointForces (and the force points of CollocationPoints). *)
From Coq Require Import Reals ZArith Lra Lia Arith Bool.
From Coquelicot Require Import Coquelicot.
From OAS Require Import Scalar Rops Sums Deriv Dual DualProofs Transfer.
Open Scope R_scope.


Lemma nodes_DR npx W M t0 w m j d : DR W t0 w -> DR3 M t0 m -> DR (fun t => nodes npx (W t) (M t) j d) t0 (nodes npx w m j d).
Proof. intros HW HM. unfold nodes. dr. Qed.

Section LT.
  Variables (npx npy : nat) (W1 W2 : R -> R) (M F : R -> nat -> nat -> nat -> R) (t0 : R).
  Variables (w1 w2 : dual R) (m f : nat -> nat -> nat -> dual R).
  Hypotheses (H1 : DR W1 t0 w1) (H2 : DR W2 t0 w2) (HM : DR3 M t0 m) (HF : DR3 F t0 f).
  Lemma lt_apts_DRv i j : DRv (fun t => lt_apts (W1 t) (M t) i j) t0 (lt_apts w1 m i j).
  Proof. intros d. unfold lt_apts. dr. Qed.
  Lemma lt_spts_DRv j : DRv (fun t => lt_spts npx (W2 t) (M t) j) t0 (lt_spts npx w2 m j).
  Proof. intros d. unfold lt_spts. dr. Qed.
  Lemma lt_hs_DR j d : DR (fun t => lt_hs npx (F t) j d) t0 (lt_hs npx f j d).
  Proof. unfold lt_hs. dr. Qed.
  Lemma Fh_DRv i j : DRv (fun t => vscal ohalf (F t i j)) t0 (vscal ohalf (f i j)).
  Proof. apply DRv_vscal; [dr | intros d; apply HF]. Qed.
  Lemma lt_min_DR j d : DR (fun t => lt_min npx (W1 t) (W2 t) (M t) (F t) j d) t0 (lt_min npx w1 w2 m f j d).
  Proof. unfold lt_min. apply DR_sumn; intros i Hi. apply DRv_cross; [apply DRv_vsub; [apply lt_apts_DRv | apply lt_spts_DRv] | apply Fh_DRv]. Qed.
  Lemma lt_mout_DR j d : DR (fun t => lt_mout npx (W1 t) (W2 t) (M t) (F t) j d) t0 (lt_mout npx w1 w2 m f j d).
  Proof. unfold lt_mout. apply DR_sumn; intros i Hi. apply DRv_cross; [apply DRv_vsub; [apply lt_apts_DRv | apply lt_spts_DRv] | apply Fh_DRv]. Qed.
  Lemma lt_loads_DR j c : DR (fun t => lt_loads npx npy (W1 t) (W2 t) (M t) (F t) j c) t0 (lt_loads npx npy w1 w2 m f j c).
  Proof.
    unfold lt_loads. destruct (c <? 3)%nat.
    - unfold lt_force. dr; apply lt_hs_DR.
    - unfold lt_moment. dr; [apply lt_min_DR | apply lt_mout_DR].
  Qed.
End LT.

Lemma transf_DR RX RY RZ t0 rx ry rz a b : DR RX t0 rx -> DR RY t0 ry -> DR RZ t0 rz ->
  DR (fun t => transf (RX t) (RY t) (RZ t) a b) t0 (transf rx ry rz a b).
Proof. intros. unfold transf. destruct a as [|[|[|a]]]; destruct b as [|[|[|b]]]; dr. Qed.
Lemma transf_mtx_DR Dp t0 dp j a b : DR2 Dp t0 dp -> DR (fun t => transf_mtx (Dp t) j a b) t0 (transf_mtx dp j a b).
Proof. intros H. unfold transf_mtx. apply transf_DR; apply H. Qed.

Lemma def_mesh_DR M Dp Tm Nd t0 m dp tm nd i j d : DR3 M t0 m -> DR2 Dp t0 dp -> DR3 Tm t0 tm -> DR2 Nd t0 nd ->
  DR (fun t => def_mesh (M t) (Dp t) (Tm t) (Nd t) i j d) t0 (def_mesh m dp tm nd i j d).
Proof. intros HM HD HT HN. unfold def_mesh, def_mesh_rot. dr. Qed.
Lemma def_mesh_group_DR npx W M Dp t0 w m dp i j d : DR W t0 w -> DR3 M t0 m -> DR2 Dp t0 dp ->
  DR (fun t => def_mesh_group npx (W t) (M t) (Dp t) i j d) t0 (def_mesh_group npx w m dp i j d).
Proof.
  intros HW HM HD. unfold def_mesh_group. apply def_mesh_DR; try assumption.
  - intros a b c. apply transf_mtx_DR; assumption.
  - intros a b. apply nodes_DR; assumption.
Qed.

Lemma mesh_point_forces_DR npx npy Le Te F t0 le te f i j d : DR Le t0 le -> DR Te t0 te -> DR3 F t0 f ->
  DR (fun t => mesh_point_forces npx npy (Le t) (Te t) (F t) i j d) t0 (mesh_point_forces npx npy le te f i j d).
Proof. intros. unfold mesh_point_forces. dr. Qed.
Lemma force_pts_DR M t0 m i j d : DR3 M t0 m -> DR (fun t => force_pts (M t) i j d) t0 (force_pts m i j d).
Proof. intros. unfold force_pts. dr. Qed.
