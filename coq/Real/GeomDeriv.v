(* GeomDeriv.v — C01 for the nine mesh transformations (Taper, ScaleX, Sweep, ShearX/Y/Z, Stretch, Dihedral,
   Rotate): the dual-number evaluation of the model is its derivative along every differentiable input curve.
   For Taper the mesh is an option of the component (a constant), as in the code. *)
From Coq Require Import Reals ZArith Lra Lia Arith Bool.
From Coquelicot Require Import Coquelicot.
From OAS Require Import Scalar Rops Sums Deriv Dual DualProofs Geom.
Open Scope R_scope.

(* branches on conditions that do not depend on the differentiation variable *)
Lemma DR_if_leb_k a b A B P Q t0 p q : DR (fun _ => a) t0 A -> DR (fun _ => b) t0 B -> DR P t0 p -> DR Q t0 q ->
  DR (fun t => if @oleb R Rops a b then P t else Q t) t0 (if @oleb _ DOPS A B then p else q).
Proof. intros Ha Hb HP HQ. cbn [oleb Dops Rops]. rewrite (DR_val _ _ _ Ha), (DR_val _ _ _ Hb). destruct (Rleb a b); assumption. Qed.
Lemma DR_if_ltb_k a b A B P Q t0 p q : DR (fun _ => a) t0 A -> DR (fun _ => b) t0 B -> DR P t0 p -> DR Q t0 q ->
  DR (fun t => if @oltb R Rops a b then P t else Q t) t0 (if @oltb _ DOPS A B then p else q).
Proof. intros Ha Hb HP HQ. cbn [oltb Dops Rops]. rewrite (DR_val _ _ _ Ha), (DR_val _ _ _ Hb). destruct (Rltb a b); assumption. Qed.

Section G.
  Variables (npx npy : nat).
  Lemma ref_axis_DR Rap M t0 rap m j d : DR Rap t0 rap -> DR3 M t0 m -> DR (fun t => ref_axis npx (Rap t) (M t) j d) t0 (ref_axis npx rap m j d).
  Proof. intros. unfold ref_axis. dr. Qed.

  (* ---------- Taper: input taper; mesh and ref_axis_pos are options ---------- *)
  Section Taper.
    Variables (sym : bool) (rap : R) (m0 : nat -> nat -> nat -> R) (Tp : R -> R) (t0 : R) (tp : dual R).
    Hypothesis HT : DR Tp t0 tp.
    Let dm := fun i j d => dinj (m0 i j d).
    Lemma dm_DR3 : DR3 (fun _ => m0) t0 dm. Proof. intros i j d. apply DR_const. Qed.
    Let span := ref_axis npx rap m0 npy 1 - ref_axis npx rap m0 0 1.
    Hypothesis Hspan : span <> 0.
    Lemma taper_factor_DR j : DR (fun t => taper_factor npx npy sym rap (Tp t) m0 j) t0 (taper_factor npx npy sym (dinj rap) tp dm j).
    Proof.
      unfold taper_factor. cbv zeta.
      assert (Hx : forall k d, DR (fun _ => ref_axis npx rap m0 k d) t0 (ref_axis npx (dinj rap) dm k d)).
      { intros k d. apply (ref_axis_DR (fun _ => rap) (fun _ => m0)); [apply DR_const | apply dm_DR3]. }
      assert (Hs : DR (fun _ => ref_axis npx rap m0 npy 1 -! ref_axis npx rap m0 0 1) t0 (ref_axis npx (dinj rap) dm npy 1 -! ref_axis npx (dinj rap) dm 0 1)).
      { apply DR_sub; apply Hx. }
      destruct sym.
      - unfold interp2. apply DR_if_leb_k; [apply Hx | apply DR_opp; exact Hs | exact HT |].
        apply DR_if_leb_k; [apply DR_o0 | apply Hx | apply DR_o1 |].
        dr; cbv beta; try apply Hx; try exact Hs; unfold o2; rops; fold span; lra.
      - unfold interp3.
        assert (H2 : @o2 R Rops <> 0) by (unfold o2; rops; lra).
        assert (Hh : DR (fun _ => (ref_axis npx rap m0 npy 1 -! ref_axis npx rap m0 0 1) /! o2) t0
                        ((ref_axis npx (dinj rap) dm npy 1 -! ref_axis npx (dinj rap) dm 0 1) /! o2)).
        { apply DR_div; [exact Hs | apply DR_o2 | exact H2]. }
        assert (Hnh : DR (fun _ => oopp (ref_axis npx rap m0 npy 1 -! ref_axis npx rap m0 0 1) /! o2) t0
                        (oopp (ref_axis npx (dinj rap) dm npy 1 -! ref_axis npx (dinj rap) dm 0 1) /! o2)).
        { apply DR_div; [apply DR_opp; exact Hs | apply DR_o2 | exact H2]. }
        apply DR_if_leb_k; [apply Hx | exact Hnh | exact HT |].
        apply DR_if_leb_k; [exact Hh | apply Hx | exact HT |].
        apply DR_if_ltb_k; [apply Hx | apply DR_o0 | |].
        + dr; cbv beta; try apply Hx; unfold o2; rops; fold span; lra.
        + dr; cbv beta; try apply Hx; unfold o2; rops; fold span; lra.
    Qed.
    Theorem taper_mesh_DR i j d : DR (fun t => taper_mesh npx npy sym rap (Tp t) m0 i j d) t0 (taper_mesh npx npy sym (dinj rap) tp dm i j d).
    Proof.
      unfold taper_mesh. dr; try apply taper_factor_DR; try apply dm_DR3;
        apply (ref_axis_DR (fun _ => rap) (fun _ => m0)); try apply DR_const; apply dm_DR3.
    Qed.
  End Taper.

  (* ---------- the transformations that take the incoming mesh as an input ---------- *)
  Section InMesh.
    Variables (M : R -> nat -> nat -> nat -> R) (Rap : R -> R) (t0 : R) (m : nat -> nat -> nat -> dual R) (rap : dual R).
    Hypotheses (HM : DR3 M t0 m) (HR : DR Rap t0 rap).
    Let HX := fun j d => ref_axis_DR Rap M t0 rap m j d HR HM.

    Lemma scalex_mesh_DR Ch ch i j d : DR1 Ch t0 ch -> DR (fun t => scalex_mesh npx (Rap t) (Ch t) (M t) i j d) t0 (scalex_mesh npx rap ch m i j d).
    Proof. intros H. unfold scalex_mesh. dr; apply HX. Qed.

    (* angles: cos <> 0 *)
    Lemma root_shear_DR sym Ang ang j : DR Ang t0 ang -> cos (PI / 180 * Ang t0) <> 0 ->
      DR (fun t => root_shear npy sym (Ang t) (M t) j) t0 (root_shear npy sym ang m j).
    Proof.
      intros HA Hc. unfold root_shear. cbv zeta.
      destruct sym; [| destruct (j <? npy / 2)%nat]; dr; cbv beta; try (rops; lra); exact Hc.
    Qed.
    Lemma sweep_mesh_DR sym Ang ang i j d : DR Ang t0 ang -> cos (PI / 180 * Ang t0) <> 0 ->
      DR (fun t => sweep_mesh npy sym (Ang t) (M t) i j d) t0 (sweep_mesh npy sym ang m i j d).
    Proof. intros HA Hc. unfold sweep_mesh. destruct (d =? 0)%nat; dr. apply root_shear_DR; assumption. Qed.
    Lemma dihedral_mesh_DR sym Ang ang i j d : DR Ang t0 ang -> cos (PI / 180 * Ang t0) <> 0 ->
      DR (fun t => dihedral_mesh npy sym (Ang t) (M t) i j d) t0 (dihedral_mesh npy sym ang m i j d).
    Proof. intros HA Hc. unfold dihedral_mesh. destruct (d =? 2)%nat; dr. apply root_shear_DR; assumption. Qed.
    Lemma shear_mesh_DR axis Sh sh i j d : DR1 Sh t0 sh -> DR (fun t => shear_mesh axis (Sh t) (M t) i j d) t0 (shear_mesh axis sh m i j d).
    Proof. intros H. unfold shear_mesh. destruct (d =? axis)%nat; dr. Qed.
    (* Stretch: the current span of the reference axis is non-zero *)
    Lemma stretch_mesh_DR sym Sp sp i j d : DR Sp t0 sp ->
      ref_axis npx (Rap t0) (M t0) npy 1 - ref_axis npx (Rap t0) (M t0) 0 1 <> 0 ->
      DR (fun t => stretch_mesh npx npy sym (Rap t) (Sp t) (M t) i j d) t0 (stretch_mesh npx npy sym rap sp m i j d).
    Proof.
      intros HS Hn. unfold stretch_mesh. cbv zeta. destruct (d =? 1)%nat; [| apply HM].
      destruct sym; dr; cbv beta; try apply HX; try exact Hn; unfold o2; rops; lra.
    Qed.

    (* Rotate: the reference axis is not vertical between neighbouring sections (dy <> 0) *)
    Definition dy_ok (j : nat) : Prop := ref_axis npx (Rap t0) (M t0) j 1 - ref_axis npx (Rap t0) (M t0) (S j) 1 <> 0.
    Lemma seg_theta_x_DR j : dy_ok j -> DR (fun t => seg_theta_x npx (Rap t) (M t) j) t0 (seg_theta_x npx rap m j).
    Proof. intros Hn. unfold seg_theta_x. dr; cbv beta; try apply HX. exact Hn. Qed.
    Lemma theta_x_DR sym rx j : (forall k, dy_ok k) -> DR (fun t => theta_x npx npy sym rx (Rap t) (M t) j) t0 (theta_x npx npy sym rx rap m j).
    Proof.
      intros Hn. unfold theta_x. cbv zeta. destruct rx; [| apply DR_o0].
      destruct sym; [destruct (j <? npy)%nat; [apply seg_theta_x_DR; apply Hn | apply DR_o0] |].
      destruct (j <? npy / 2)%nat eqn:F; [apply seg_theta_x_DR; apply Hn |].
      destruct (j =? npy / 2)%nat eqn:E; [apply DR_o0 |].
      apply Nat.ltb_ge in F. apply Nat.eqb_neq in E. assert (Hj : (1 <= j)%nat) by lia.
      dr; cbv beta; try apply HX.
      specialize (Hn (j - 1)%nat). unfold dy_ok in Hn. replace (S (j - 1)) with j in Hn by lia. rops. lra.
    Qed.
    Lemma rot_mat_DR Tx Ty tx ty a b : DR Tx t0 tx -> DR Ty t0 ty -> DR (fun t => rot_mat (Tx t) (Ty t) a b) t0 (rot_mat tx ty a b).
    Proof. intros. unfold rot_mat. destruct a as [|[|[|a]]]; destruct b as [|[|[|b]]]; dr. Qed.
    Theorem rotate_mesh_DR sym rx Tw tw i j d : DR1 Tw t0 tw -> (forall k, dy_ok k) ->
      DR (fun t => rotate_mesh npx npy sym rx (Rap t) (Tw t) (M t) i j d) t0 (rotate_mesh npx npy sym rx rap tw m i j d).
    Proof.
      intros HT Hn. unfold rotate_mesh. cbv zeta. dr; try apply HX.
      apply rot_mat_DR; [apply theta_x_DR; exact Hn | dr; rops; lra].
    Qed.
  End InMesh.
End G.

(* the true derivative of the tapered mesh with respect to taper AT taper = 1 is not zero (what the special
   case of the code's compute_partials returns): a 2 x 2 symmetric half, tip at y = -1, chord 1 *)
Definition taper_ex_mesh (i j d : nat) : R :=
  match d with 0%nat => INR i | 1%nat => if (j =? 0)%nat then -1 else 0 | _ => 0 end.
Lemma taper_partial_at_one_nonzero :
  exists dv, is_derive (fun t => taper_mesh 1 1 true (1/4) t taper_ex_mesh 1 0 0) 1 dv /\ dv <> 0.
Proof.
  assert (H := taper_mesh_DR 1 1 true (1/4) taper_ex_mesh (fun t => t) 1 (dvar 1) (DR_id 1)).
  eexists. split.
  - apply DR_der. apply H. unfold ref_axis, taper_ex_mesh; cbn; rops. lra.
  - unfold taper_mesh, taper_factor, interp2, ref_axis, taper_ex_mesh.
    cbn [oadd osub omul odiv oopp oleb o0 o1 Dops d_add d_sub d_mul d_div d_opp dinj dvar fst snd Nat.eqb Rops INR].
    match goal with |- context [if Rleb ?a ?b then dvar 1 else _] => assert (E1 : Rleb a b = true) by (apply Rleb_true; lra); rewrite E1 end.
    unfold dvar. cbn [fst snd]. rops. lra.
Qed.
