(* WiringProofs.v — the data-flow graphs regenerated from the live models are the reviewed ones (finite comparison, by computation). *)
From Coq Require Import String List.
From OAS Require Import Wiring WiringReviewed.
Import ListNotations.

Lemma wiring_reviewed : gen_wiring = reviewed_wiring.
Proof. reflexivity. Qed.
