(* SmallDeriv.v — C01 for SparWithinWing, TotalLift, MultiCD, PanelForcesSurf. *)
From Coq Require Import Reals ZArith Lra Lia Arith Bool.
From Coquelicot Require Import Coquelicot.
From OAS Require Import Scalar Rops Sums Deriv Dual DualProofs Wingbox WingboxDeriv Small.
Open Scope R_scope.

Lemma spar_within_wing_DR nx1 (Mesh : R -> nat -> nat -> nat -> R) (Rad Toc : R -> nat -> R) t0 mesh rad toc e :
  DR3 Mesh t0 mesh -> DR1 Rad t0 rad -> DR1 Toc t0 toc ->
  wg_chord_ok nx1 (Mesh t0) e -> wg_chord_ok nx1 (Mesh t0) (S e) ->
  DR (fun t => spar_within_wing nx1 (Mesh t) (Rad t) (Toc t) e) t0 (spar_within_wing nx1 mesh rad toc e).
Proof.
  intros HM HR HT C0 C1. unfold spar_within_wing.
  pose proof (wg_sw_DR nx1 Mesh t0 mesh HM e C0 C1) as Hs. dr.
Qed.

(* the derivative with respect to t_over_c that the unrepaired component did not declare (finding F14) is not zero *)
Lemma spar_within_wing_toc_partial_nonzero nx1 (m : nat -> nat -> nat -> R) (rad toc : nat -> R) e :
  wg_sw nx1 m e <> 0 ->
  forall l, is_derive (fun x => spar_within_wing nx1 m rad (upd1 toc e x) e) (toc e) l -> l <> 0.
Proof.
  intros Hs l Hl.
  assert (Hd : is_derive (fun x => spar_within_wing nx1 m rad (upd1 toc e x) e) (toc e) (- (wg_sw nx1 m e * / 2))).
  { unfold spar_within_wing, upd1. rewrite Nat.eqb_refl. generalize (wg_sw nx1 m e); intros c.
    unfold ohalf, ofrac; rops. auto_derive; [exact I | field]. }
  assert (E : l = - (wg_sw nx1 m e * / 2)).
  { rewrite <- (is_derive_unique _ _ _ Hl). apply is_derive_unique. exact Hd. }
  rewrite E. intros H. apply Hs. lra.
Qed.

Lemma total_lift_DR (CL1 : R -> R) t0 cl1 (CL0 : R) :
  DR CL1 t0 cl1 -> DR (fun t => total_lift CL0 (CL1 t)) t0 (total_lift (dinj CL0) cl1).
Proof. intros H. unfold total_lift. dr. Qed.

Lemma multi_cd_DR n (CD : R -> nat -> R) t0 cd :
  DR1 CD t0 cd -> DR (fun t => multi_cd n (CD t)) t0 (multi_cd n cd).
Proof. intros H. unfold multi_cd. dr. Qed.

Lemma panel_forces_surf_DR offset npy (PF : R -> nat -> nat -> R) t0 pf i j d :
  DR2 PF t0 pf -> DR (fun t => panel_forces_surf offset npy (PF t) i j d) t0 (panel_forces_surf offset npy pf i j d).
Proof. intros H. unfold panel_forces_surf. apply H. Qed.
