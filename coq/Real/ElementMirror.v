(* ElementMirror.v — C07, structure: the stiffness matrix of the mirror image of a beam element (reflected about y = 0, its
   two nodes exchanged) is the original one with the nodes exchanged and the reflected DOFs' signs applied on both sides.
   This is the hypothesis Hk of BeamCantilever.assembled_mirror, here PROVED from the element model. *)
From Coq Require Import Reals ZArith Lra Lia Arith Bool List.
From OAS Require Import Scalar Rops Sums Stress Vec3 BeamTables Beam FrameElement BeamProofs Reflect SymProofs BeamCantilever.
Import ListNotations.
Open Scope R_scope.

Definition sgn1 (k : nat) (v : R) : R := if (k =? 1)%nat then - v else v.
Lemma My_sgn v k : (k < 3)%nat -> My v k = sgn1 k (v k).
Proof. intros H. rewrite My_def by exact H. reflexivity. Qed.

Section Frame.
  Variables P0 P1 : nat -> R.
  Let Q0 := My P1.   (* mirrored element, nodes exchanged *)
  Let Q1 := My P0.

  Lemma dP_mirror k : (k < 3)%nat -> vsub Q1 Q0 k = - sgn1 k (vsub P1 P0 k).
  Proof. intros H. unfold Q0, Q1, vsub; rops. rewrite !My_sgn by exact H. unfold sgn1. destruct (k =? 1)%nat; ring. Qed.

  Lemma len_mirror : nrm (vsub Q1 Q0) = nrm (vsub P1 P0).
  Proof.
    unfold nrm, dot; rops. rewrite !dP_mirror by lia. unfold sgn1. cbn [Nat.eqb]. f_equal. ring.
  Qed.

  Lemma x_mirror k : (k < 3)%nat -> loc_x Q0 Q1 k = - sgn1 k (loc_x P0 P1 k).
  Proof.
    intros H. unfold loc_x, vunit; rops. rewrite len_mirror, dP_mirror by exact H. unfold sgn1, Rdiv. destruct (k =? 1)%nat; ring.
  Qed.

  Lemma cxe_mirror k : (k < 3)%nat -> cross (loc_x Q0 Q1) e_x k = sgn1 k (cross (loc_x P0 P1) e_x k).
  Proof.
    intros H. unfold cross, e_x, mk3; rops. rewrite !x_mirror by lia. unfold sgn1.
    destruct k as [|[|[|k]]]; try lia; cbn [Nat.eqb]; ring.
  Qed.

  Lemma cxe_nrm_mirror : nrm (cross (loc_x Q0 Q1) e_x) = nrm (cross (loc_x P0 P1) e_x).
  Proof. unfold nrm, dot; rops. rewrite !cxe_mirror by lia. unfold sgn1. cbn [Nat.eqb]. f_equal. ring. Qed.

  Lemma y_mirror k : (k < 3)%nat -> loc_y Q0 Q1 k = sgn1 k (loc_y P0 P1 k).
  Proof.
    intros H. unfold loc_y, vunit; rops. rewrite cxe_nrm_mirror, cxe_mirror by exact H. unfold sgn1, Rdiv. destruct (k =? 1)%nat; ring.
  Qed.

  Lemma z_mirror k : (k < 3)%nat -> cross (loc_x Q0 Q1) (loc_y Q0 Q1) k = sgn1 k (cross (loc_x P0 P1) (loc_y P0 P1) k).
  Proof.
    intros H. unfold cross, mk3; rops. rewrite !x_mirror, !y_mirror by lia. unfold sgn1.
    destruct k as [|[|[|k]]]; try lia; cbn [Nat.eqb]; ring.
  Qed.

  (* rows of the direction-cosine block: x' = - My x, y' = My y, z' = My z *)
  Definition dD (r : nat) : R := if (r =? 0)%nat then -1 else 1.
  Lemma tr_row_mirror r c : (r < 3)%nat -> (c < 3)%nat -> tr_row Q0 Q1 r c = dD r * sgn1 c (tr_row P0 P1 r c).
  Proof.
    intros Hr Hc. unfold tr_row, dD. destruct r as [|[|[|r]]]; try lia; cbn [Nat.eqb].
    - rewrite x_mirror by exact Hc. unfold sgn1. destruct (c =? 1)%nat; ring.
    - rewrite y_mirror by exact Hc. ring.
    - rewrite z_mirror by exact Hc. ring.
  Qed.
End Frame.

(* ---------- the 12 x 12 algebra ---------- *)
Definition Tm (P0 P1 : nat -> R) (i j : nat) : R :=
  if (i / 3 =? j / 3)%nat then tr_row P0 P1 (i mod 3) (j mod 3) else 0.
Definition dd (l : nat) : R := dD (l mod 3).
Definition ss (p : nat) : R := if (p mod 3 =? 1)%nat then -1 else 1.
Definition jj (l : nat) : R := if (l mod 6 <? 3)%nat then 1 else -1.

Lemma Tm_is_transform (nodes : nat -> nat -> R) e i j : transform nodes e i j = Tm (nodes e) (nodes (S e)) i j.
Proof. reflexivity. Qed.

Lemma Tm_mirror P0 P1 l p : Tm (My P1) (My P0) l p = dd l * ss p * Tm P0 P1 l p.
Proof.
  unfold Tm, dd, ss. destruct (l / 3 =? p / 3)%nat; [|ring].
  rewrite tr_row_mirror by (apply Nat.mod_upper_bound; lia). unfold sgn1. destruct (p mod 3 =? 1)%nat; ring.
Qed.

Lemma Tm_sw P0 P1 l p : (l < 12)%nat -> (p < 12)%nat -> Tm P0 P1 (sw l) p = Tm P0 P1 l (sw p).
Proof. intros Hl Hp. case12 l; case12 p; reflexivity. Qed.

Lemma jj_block P0 P1 l p : (l < 12)%nat -> (p < 12)%nat -> jj l * Tm P0 P1 l p = jj p * Tm P0 P1 l p.
Proof. intros Hl Hp. case12 l; case12 p; unfold jj, Tm; cbn [Nat.div Nat.modulo Nat.divmod fst snd Nat.eqb Nat.ltb Nat.leb Nat.sub]; ring. Qed.

Lemma sw_sw l : (l < 12)%nat -> sw (sw l) = l.
Proof. intros Hl. case12 l; reflexivity. Qed.
Lemma sw_lt l : (l < 12)%nat -> (sw l < 12)%nat.
Proof. intros Hl. case12 l; cbn; lia. Qed.
Lemma sg_is_ss_jj p : (p < 12)%nat -> sg p = ss p * jj p.
Proof. intros Hp. case12 p; unfold sg, ss, jj; cbn [Nat.even Nat.modulo Nat.divmod fst snd Nat.eqb Nat.ltb Nat.leb Nat.sub]; ring. Qed.

Section Congruence.
  Variables (P0 P1 : nat -> R) (Kp : nat -> nat -> R).
  (* reversing the direction of the element axis (x -> -x, nodes exchanged): a property of the local element matrix *)
  Hypothesis Hrev : forall l m, (l < 12)%nat -> (m < 12)%nat -> dd l * dd m * Kp l m = jj l * jj m * Kp (sw l) (sw m).

  Theorem element_mirror p q : (p < 12)%nat -> (q < 12)%nat ->
    transformed (Tm (My P1) (My P0)) Kp p q = sg p * sg q * transformed (Tm P0 P1) Kp (sw p) (sw q).
  Proof.
    intros Hp Hq. unfold transformed; rops.
    (* step 1: mirrored direction cosines, the reversal property, block structure *)
    rewrite (rsum_ext 12 _ (fun l => rsum 12 (fun m => (ss p * jj p) * (ss q * jj q) * (Tm P0 P1 l p * Kp (sw l) (sw m) * Tm P0 P1 m q)))).
    2:{ intros l Hl. apply rsum_ext; intros m Hm. rewrite !Tm_mirror.
        replace (dd l * ss p * Tm P0 P1 l p * Kp l m * (dd m * ss q * Tm P0 P1 m q))
          with (ss p * ss q * Tm P0 P1 l p * (dd l * dd m * Kp l m) * Tm P0 P1 m q) by ring.
        rewrite Hrev by assumption.
        replace (ss p * ss q * Tm P0 P1 l p * (jj l * jj m * Kp (sw l) (sw m)) * Tm P0 P1 m q)
          with (ss p * ss q * (jj l * Tm P0 P1 l p) * Kp (sw l) (sw m) * (jj m * Tm P0 P1 m q)) by ring.
        rewrite (jj_block P0 P1 l p), (jj_block P0 P1 m q) by assumption. ring. }
    (* step 2: re-index both sums by the node exchange *)
    rewrite (rsum12_swap (fun l => rsum 12 (fun m => ss p * jj p * (ss q * jj q) * (Tm P0 P1 l p * Kp (sw l) (sw m) * Tm P0 P1 m q)))).
    rewrite (rsum_ext 12 _ (fun l => rsum 12 (fun m => sg p * sg q * (Tm P0 P1 l (sw p) * Kp l m * Tm P0 P1 m (sw q))))).
    2:{ intros l Hl.
        rewrite (rsum12_swap (fun m => ss p * jj p * (ss q * jj q) * (Tm P0 P1 (sw l) p * Kp (sw (sw l)) (sw m) * Tm P0 P1 m q))).
        apply rsum_ext; intros m Hm. rewrite !sw_sw by assumption. rewrite !Tm_sw by assumption.
        rewrite !sg_is_ss_jj by assumption. ring. }
    rewrite <- rsum_scal. apply rsum_ext; intros l Hl. rewrite <- rsum_scal. apply rsum_ext; intros m Hm. ring.
  Qed.
End Congruence.

(* the reversal property holds for the textbook frame element, hence for the code's permuted local stiffness *)
Lemma frame_reversal E G A J Iy Iz L l m : (l < 12)%nat -> (m < 12)%nat ->
  dd l * dd m * frame_element E G A J Iy Iz L l m = jj l * jj m * frame_element E G A J Iy Iz L (sw l) (sw m).
Proof.
  intros Hl Hm. case12 l; case12 m; unfold dd, dD, jj, sw, frame_element, pair_sign, rnth2, bend_xy, bend_xz;
    cbn [Nat.eqb Nat.ltb Nat.leb Nat.add Nat.sub Nat.mul Nat.div Nat.modulo Nat.divmod fst snd nth]; try reflexivity; ring.
Qed.

Theorem tube_element_mirror E G A J Iy Iz L (P0 P1 : nat -> R) p q : L <> 0 -> (p < 12)%nat -> (q < 12)%nat ->
  transformed (Tm (My P1) (My P0)) (permuted (local_stiff E G A J Iy Iz L)) p q
  = sg p * sg q * transformed (Tm P0 P1) (permuted (local_stiff E G A J Iy Iz L)) (sw p) (sw q).
Proof.
  intros HL Hp Hq. apply element_mirror; try assumption.
  intros l m Hl Hm. rewrite !permuted_local_stiff_eq_textbook by (try assumption; apply sw_lt; assumption).
  apply frame_reversal; assumption.
Qed.

(* ---------- the chain of the element components on a whole beam ---------- *)
Definition beam_kloc (nodes : nat -> nat -> R) (E G : R) (A J Iy Iz : nat -> R) (e : nat) : nat -> nat -> R :=
  transformed (transform nodes e) (permuted (local_stiff E G (A e) (J e) (Iy e) (Iz e) (elem_length nodes e))).
(* the mirror image of a beam with ne elements: nodes reflected and listed in reverse order, element data reversed *)
Definition nodesM (ne : nat) (nodes : nat -> nat -> R) (a : nat) : nat -> R := My (nodes (ne - a)%nat).
Definition revE (ne : nat) (f : nat -> R) (e : nat) : R := f (ne - 1 - e)%nat.

Lemma elem_length_mirror ne nodes e : (e < ne)%nat -> elem_length (nodesM ne nodes) (ne - 1 - e) = elem_length nodes e.
Proof.
  intros He. unfold elem_length, nodesM, osq; rops.
  replace (ne - S (ne - 1 - e))%nat with e by lia. replace (ne - (ne - 1 - e))%nat with (S e) by lia.
  rewrite !My_def by lia. cbn [Nat.eqb]. f_equal. ring.
Qed.

Theorem beam_elements_mirror ne nodes E G A J Iy Iz e p q :
  (e < ne)%nat -> (p < 12)%nat -> (q < 12)%nat -> elem_length nodes e <> 0 ->
  beam_kloc (nodesM ne nodes) E G (revE ne A) (revE ne J) (revE ne Iy) (revE ne Iz) (ne - 1 - e) p q
  = sg p * sg q * beam_kloc nodes E G A J Iy Iz e (sw p) (sw q).
Proof.
  intros He Hp Hq HL. unfold beam_kloc. rewrite elem_length_mirror by exact He.
  unfold revE. replace (ne - 1 - (ne - 1 - e))%nat with e by lia.
  change (transform (nodesM ne nodes) (ne - 1 - e)) with (Tm (nodesM ne nodes (ne - 1 - e)) (nodesM ne nodes (S (ne - 1 - e)))).
  change (transform nodes e) with (Tm (nodes e) (nodes (S e))). unfold nodesM.
  replace (ne - S (ne - 1 - e))%nat with e by lia. replace (ne - (ne - 1 - e))%nat with (S e) by lia.
  apply tube_element_mirror; assumption.
Qed.

(* the structural mirror statement without any hypothesis on the element matrices: the assembled system of the mirrored
   beam maps mirrored displacements to mirrored nodal forces and moments *)
Theorem beam_system_mirror ne nodes E G A J Iy Iz (u : nat -> R) a r :
  (forall e, (e < ne)%nat -> elem_length nodes e <> 0) -> (a <= ne)%nat -> (r < 6)%nat ->
  rsum (6 * S ne) (fun q => assembled ne (beam_kloc (nodesM ne nodes) E G (revE ne A) (revE ne J) (revE ne Iy) (revE ne Iz))
                                      (ne - a) r (q / 6) (q mod 6) * um ne u q)
  = sg r * rsum (6 * S ne) (fun q => assembled ne (beam_kloc nodes E G A J Iy Iz) a r (q / 6) (q mod 6) * u q).
Proof.
  intros HL Ha Hr. apply assembled_mirror; try assumption.
  intros e p q He Hp Hq. apply beam_elements_mirror; try assumption. apply HL, He.
Qed.
