From Coq Require Import Reals ZArith Lra Lia Arith Bool List.
From OAS Require Import Scalar Rops Sums Deriv Dual DualProofs Mphys.
Import ListNotations.
Open Scope R_scope.

(* mphys/demux_surface_mesh.py and mphys/mux_surface_forces.py are matrix-free: compute_jacvec_product applies, in forward
   mode, the same gather / scatter to the perturbation.  Here: the dual-number evaluation of the models (value = the
   gather of the values, tangent = the gather of the tangents) is the derivative along every differentiable curve. *)
Lemma demux_DR sizes (X : R -> nat -> R) t0 (x : nat -> R * R) s k :
  (forall p, DR (fun t => X t p) t0 (x p)) -> DR (fun t => demux sizes (X t) s k) t0 (demux sizes x s k).
Proof. intros H. unfold demux. apply H. Qed.

Lemma mux_DR sizes : forall (B : R -> nat -> nat -> R) t0 (b : nat -> nat -> R * R) p,
  (forall s k, DR (fun t => B t s k) t0 (b s k)) -> DR (fun t => mux sizes (B t) p) t0 (mux sizes b p).
Proof.
  induction sizes as [|n r IH]; intros B t0 b p H; cbn [mux].
  - apply DR_const.
  - destruct (p <? n)%nat.
    + apply H.
    + apply (IH (fun t s => B t (S s)) t0 (fun s => b (S s))). intros s k. apply H.
Qed.

(* reverse mode (the transpose) is ComposeProofs.mux_adjoint / C19_mux_demux_adjoint *)
