(* BeamDeriv.v — C01 for Length, LocalStiff, LocalStiffPermuted, Transform, LocalStiffTransformed, FEM
   (residual: dR/du = K, dR/dK_e and dR/dforces follow), CreateRHS (off the zeroing threshold), Disp. *)
From Coq Require Import Reals ZArith Lra Lia Arith Bool List.
From Coquelicot Require Import Coquelicot.
From OAS Require Import Scalar Rops Sums Deriv Dual DualProofs Stress Beam BeamTables StressDeriv.
Open Scope R_scope.

Lemma tbl_DR tb i j t0 : DR (fun _ => @tbl R Rops tb i j) t0 (@tbl _ DOPS tb i j).
Proof. unfold tbl. apply DR_ofZ. Qed.

Lemma elem_length_DR N t0 n e : DR2 N t0 n ->
  0 < osq (N t0 (S e) 0%nat - N t0 e 0%nat) + osq (N t0 (S e) 1%nat - N t0 e 1%nat) + osq (N t0 (S e) 2%nat - N t0 e 2%nat) ->
  DR (fun t => elem_length (N t) e) t0 (elem_length n e).
Proof. intros HN Hp. unfold elem_length. apply DR_sqrt; [dr | exact Hp]. Qed.

Lemma lscale_DR L X t0 l x i j : DR L t0 l -> DR X t0 x -> DR (fun t => lscale (L t) i j (X t)) t0 (lscale l i j x).
Proof. intros. unfold lscale. cbv zeta. destruct (oddb i); destruct (oddb j); dr. Qed.
Lemma local_stiff_DR E G A J Iy Iz L t0 e g a j' iy iz l i k :
  DR E t0 e -> DR G t0 g -> DR A t0 a -> DR J t0 j' -> DR Iy t0 iy -> DR Iz t0 iz -> DR L t0 l -> L t0 <> 0 ->
  DR (fun t => local_stiff (E t) (G t) (A t) (J t) (Iy t) (Iz t) (L t) i k) t0 (local_stiff e g a j' iy iz l i k).
Proof.
  intros H1 H2 H3 H4 H5 H6 H7 Hn. unfold local_stiff.
  assert (Hn3 : L t0 * L t0 * L t0 <> 0) by (repeat apply Rmult_integral_contrapositive_currified; exact Hn).
  repeat match goal with |- DR (fun t => if ?c then _ else _) _ _ => destruct c end;
    try (apply lscale_DR; [assumption|]); dr; cbv beta; try apply tbl_DR; try exact Hn; exact Hn3.
Qed.
Lemma permuted_DR Kl t0 kl j k : DR2 Kl t0 kl -> DR (fun t => permuted (Kl t) j k) t0 (permuted kl j k).
Proof. intros H. unfold permuted. apply H. Qed.

(* Transform: rows are the local frame (StressDeriv) *)
Section Transform.
  Variables (N : R -> nat -> nat -> R) (t0 : R) (n : nat -> nat -> dual R) (e : nat).
  Hypothesis HN : DR2 N t0 n.
  Let p0 := N t0 e. Let p1 := N t0 (S e).
  Hypotheses (AL : nz3 (vsub p1 p0)) (Ay : nz3 (cross (loc_x p0 p1) e_x)).
  Lemma tr_row_DRv r : DRv (fun t => tr_row (N t e) (N t (S e)) r) t0 (tr_row (n e) (n (S e)) r).
  Proof.
    unfold tr_row. cbv zeta.
    assert (Hx : DRv (fun t => loc_x (N t e) (N t (S e))) t0 (loc_x (n e) (n (S e)))).
    { apply loc_x_DRv; [intros d; apply HN | intros d; apply HN | exact AL]. }
    assert (Hy : DRv (fun t => loc_y (N t e) (N t (S e))) t0 (loc_y (n e) (n (S e)))).
    { apply loc_y_DRv; [intros d; apply HN | intros d; apply HN | exact AL | exact Ay]. }
    destruct r as [|[|r]]; [exact Hx | exact Hy | apply DRv_cross; assumption].
  Qed.
  Lemma transform_DR i j : DR (fun t => transform (N t) e i j) t0 (transform n e i j).
  Proof. unfold transform. destruct (i / 3 =? j / 3)%nat; [apply tr_row_DRv | apply DR_o0]. Qed.
End Transform.

Lemma transformed_DR Tm Kp t0 tm kp j k : DR2 Tm t0 tm -> DR2 Kp t0 kp -> DR (fun t => transformed (Tm t) (Kp t) j k) t0 (transformed tm kp j k).
Proof. intros. unfold transformed. dr. Qed.

Lemma assembled_DR ne Kl t0 kl a r b c : DR3 Kl t0 kl -> DR (fun t => assembled ne (Kl t) a r b c) t0 (assembled ne kl a r b c).
Proof. intros H. unfold assembled. apply DR_sumn; intros e He. destruct (in_elem e a && in_elem e b)%bool; [apply H | apply DR_o0]. Qed.
Lemma clamp_weight_DR t0 : DR (fun _ => @gen_clamp_weight R Rops) t0 (@gen_clamp_weight _ DOPS).
Proof. unfold gen_clamp_weight. dr. Qed.
Lemma K_aug_DR ne root Kl t0 kl p q : DR3 Kl t0 kl -> DR (fun t => K_aug ne root (Kl t) p q) t0 (K_aug ne root kl p q).
Proof.
  intros H. unfold K_aug. cbv zeta.
  repeat match goal with |- DR (fun t => if ?c then _ else _) _ _ => destruct c end;
    first [apply assembled_DR; exact H | apply clamp_weight_DR | apply DR_o0].
Qed.
(* FEM residual: K_aug(K_e) u - forces *)
Lemma fem_residual_DR ne root Kl F U t0 kl f u p : DR3 Kl t0 kl -> DR1 F t0 f -> DR1 U t0 u ->
  DR (fun t => fem_residual ne root (Kl t) (F t) (U t) p) t0 (fem_residual ne root kl f u p).
Proof. intros H1 H2 H3. unfold fem_residual. dr; first [apply K_aug_DR; exact H1 | apply H3 | apply H2]. Qed.
Lemma rhs_threshold_DR t0 : DR (fun _ => @gen_rhs_threshold R Rops) t0 (@gen_rhs_threshold _ DOPS).
Proof. unfold gen_rhs_threshold. dr. Qed.
(* CreateRHS: loads strictly above the zeroing threshold, or strictly below it but non-zero (the kink and the
   jump of the code's thresholding are the documented non-smooth points) *)
Lemma create_rhs_DR ny Ld t0 ld p : DR2 Ld t0 ld ->
  ((p < 6 * ny)%nat -> Ld t0 (p / 6)%nat (p mod 6)%nat <> 0 /\ Rabs (0 + Ld t0 (p / 6)%nat (p mod 6)%nat) <> gen_rhs_threshold) ->
  DR (fun t => create_rhs ny (Ld t) p) t0 (create_rhs ny ld p).
Proof.
  intros H Hadm. unfold create_rhs. destruct (p <? 6 * ny)%nat eqn:E; [| apply DR_o0]. cbv zeta.
  apply Nat.ltb_lt in E. destruct (Hadm E) as [Hz Ht].
  apply DR_if_ltb; [apply DR_abs; [dr | cbv beta; rops; lra] | apply rhs_threshold_DR | exact Ht | apply DR_o0 | dr].
Qed.
Lemma disp_of_DR U t0 u n c : DR1 U t0 u -> DR (fun t => disp_of (U t) n c) t0 (disp_of u n c).
Proof. intros H. unfold disp_of. apply H. Qed.
