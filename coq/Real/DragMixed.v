(* DragMixed.v — C18: the section skin-friction coefficient decreases with Reynolds number for EVERY laminar fraction
   0 <= k <= 1 (the mixed case 0 < k < 1 by the mean value theorem). *)
From Coq Require Import Reals ZArith Lra Lia Arith.
From Coquelicot Require Import Coquelicot.
From OAS Require Import Scalar Rops Sums Drag DragProofs.
Open Scope R_scope.

(* k / (ln(x k)/ln 10)^a <= 1 / (ln x/ln 10)^a as soon as ln (x k) >= a *)
Lemma scaled_pow_le a k x : 0 < a -> 0 < k -> k <= 1 -> 0 < x -> a <= ln (x * k) ->
  k * / Rpower (ln (x * k) / ln 10) a <= / Rpower (ln x / ln 10) a.
Proof.
  intros Ha Hk Hk1 Hx Hu.
  assert (Hxk : 0 < x * k) by (apply Rmult_lt_0_compat; assumption).
  set (u1 := ln (x * k)) in *. set (u2 := ln x).
  assert (Hs : u2 = u1 - ln k).
  { unfold u1, u2. rewrite ln_mult by assumption. ring. }
  assert (Hlk : ln k <= 0).
  { destruct Hk1 as [Hk1|Hk1]; [left; rewrite <- ln_1; apply ln_increasing; lra | rewrite Hk1, ln_1; lra]. }
  assert (Hu1 : 0 < u1) by lra. assert (Hu2 : 0 < u2) by lra.
  pose proof ln10_pos as H10.
  unfold Rpower. rewrite <- !exp_Ropp. rewrite <- (exp_ln k Hk) at 1. rewrite <- exp_plus.
  assert (Hq1 : 0 < u1 / ln 10) by (apply Rdiv_lt_0_compat; assumption).
  assert (Hq2 : 0 < u2 / ln 10) by (apply Rdiv_lt_0_compat; assumption).
  assert (E : ln (u2 / ln 10) - ln (u1 / ln 10) = ln (u2 / u1)).
  { unfold Rdiv. rewrite !ln_mult, !ln_Rinv; try lra; try (apply Rinv_0_lt_compat; lra). }
  assert (Hr : ln (u2 / u1) <= u2 / u1 - 1).
  { apply ln_le_minus1. apply Rdiv_lt_0_compat; assumption. }
  assert (Hb : u2 / u1 - 1 = - ln k / u1) by (rewrite Hs; field; lra).
  assert (Hc : a * (- ln k / u1) <= - ln k).
  { unfold Rdiv. assert (0 <= - ln k) by lra. assert (a * / u1 <= 1).
    { apply (Rmult_le_reg_r u1); [exact Hu1|]. rewrite Rmult_assoc, Rinv_l by lra. lra. }
    nra. }
  assert (Hfin : ln k + - (a * ln (u1 / ln 10)) <= - (a * ln (u2 / ln 10))).
  { assert (a * (ln (u2 / ln 10) - ln (u1 / ln 10)) <= - ln k).
    { rewrite E. apply Rle_trans with (a * (u2 / u1 - 1)); [apply Rmult_le_compat_l; lra | rewrite Hb; exact Hc]. }
    lra. }
  destruct Hfin as [Hlt|Heq]; [left; apply exp_increasing; exact Hlt | rewrite Heq; lra].
Qed.

Section Mixed.
  Variables (M k : R).
  Hypotheses (Hk0 : 0 < k) (Hk1 : k <= 1).
  Let a := 258 / 100.
  Let C := 455 / 1000 / vd_B M.

  (* the turbulent part of the mixed coefficient: full-chord turbulent minus k times the turbulent coefficient of the laminar run *)
  Definition turb_part (x : R) : R := cd_turb M x - k * cd_turb M (x * k).
  Definition q (x : R) : R := ln x / ln 10.
  Definition turb_part' (x : R) : R :=
    C * a / (x * ln 10) * (k * / Rpower (q (x * k)) (a + 1) - / Rpower (q x) (a + 1)).

  Lemma inv_pow_succ y : 0 < y -> exp (- (a * ln y)) / y = / Rpower y (a + 1).
  Proof.
    intros Hy. unfold Rpower. rewrite <- exp_Ropp. rewrite <- (exp_ln y Hy) at 2. unfold Rdiv. rewrite <- exp_Ropp, <- exp_plus.
    f_equal. ring.
  Qed.

  Lemma cd_turb_explicit x : cd_turb M x = C * exp (- (a * ln (ln x / ln 10))).
  Proof.
    unfold cd_turb, c455, c258, ofrac; rops. rewrite log10_eq. unfold Rpower, C. fold a. rewrite exp_Ropp.
    pose proof (vd_B_pos M). field. repeat split; apply Rgt_not_eq; (assumption || apply exp_pos).
  Qed.

  Lemma turb_part_derive x : 1 < x -> 1 < x * k -> is_derive turb_part x (turb_part' x).
  Proof.
    intros Hx Hxk.
    pose proof ln10_pos as H10.
    assert (Hlx : 0 < ln x) by (apply ln_pos_gt1, Hx).
    assert (Hlxk : 0 < ln (x * k)) by (apply ln_pos_gt1, Hxk).
    assert (Hq : 0 < q x) by (apply Rdiv_lt_0_compat; assumption).
    assert (Hqk : 0 < q (x * k)) by (apply Rdiv_lt_0_compat; assumption).
    unfold turb_part'. rewrite <- !inv_pow_succ by assumption. unfold q in *.
    apply (is_derive_ext (fun y => C * exp (- (a * ln (ln y / ln 10))) - k * (C * exp (- (a * ln (ln (y * k) / ln 10)))))).
    { intros y. unfold turb_part. rewrite !cd_turb_explicit. reflexivity. }
    generalize C; intros C0.
    auto_derive.
    - repeat split; try lra; try assumption.
    - unfold Rdiv. field. repeat split; try lra.
  Qed.

  Lemma turb_part'_nonpos x : 1 < x -> a + 1 <= ln (x * k) -> turb_part' x <= 0.
  Proof.
    intros Hx Hl. unfold turb_part', q.
    pose proof ln10_pos as H10. pose proof (vd_B_pos M) as HB.
    assert (Ha : 0 < a + 1) by (unfold a; lra).
    pose proof (scaled_pow_le (a + 1) k x Ha Hk0 Hk1 ltac:(lra) Hl) as Hs.
    assert (HC : 0 <= C * a / (x * ln 10)).
    { unfold C, a. apply Rlt_le. apply Rdiv_lt_0_compat; [|apply Rmult_lt_0_compat; lra].
      apply Rmult_lt_0_compat; [apply Rdiv_lt_0_compat; lra | lra]. }
    set (d := k * / Rpower (ln (x * k) / ln 10) (a + 1) - / Rpower (ln x / ln 10) (a + 1)) in *.
    assert (d <= 0) by (unfold d; lra). nra.
  Qed.

  (* mean value theorem: the turbulent part is non-increasing in the chord Reynolds number *)
  Lemma turb_part_nonincr x1 x2 : x1 < x2 -> 1 < x1 * k -> a + 1 <= ln (x1 * k) -> turb_part x2 <= turb_part x1.
  Proof.
    intros H12 H1k Hl.
    assert (Hx1 : 1 < x1) by nra.
    assert (Hin : forall c, x1 <= c -> 1 < c /\ 1 < c * k /\ a + 1 <= ln (c * k)).
    { intros c Hc. assert (x1 * k <= c * k) by (apply Rmult_le_compat_r; lra). repeat split; try lra.
      destruct H as [H|H]; [left; apply Rle_lt_trans with (1 := Hl); apply ln_increasing; lra | rewrite <- H; exact Hl]. }
    destruct (MVT_gen turb_part x1 x2 turb_part') as [c [Hc E]].
    - rewrite Rmin_left, Rmax_right by lra. intros c Hc. destruct (Hin c ltac:(lra)) as (A & B & _). apply turb_part_derive; assumption.
    - rewrite Rmin_left, Rmax_right by lra. intros c Hc. destruct (Hin c ltac:(lra)) as (A & B & _).
      apply continuity_pt_filterlim. apply (ex_derive_continuous turb_part c). exists (turb_part' c). apply turb_part_derive; assumption.
    - rewrite Rmin_left, Rmax_right in Hc by lra. destruct (Hin c ltac:(lra)) as (A & B & D).
      pose proof (turb_part'_nonpos c A D). nra.
  Qed.

  (* the section coefficient with a laminar run 0 < k < 1 decreases strictly with the chord Reynolds number *)
  Lemma vd_cd_decr_mixed R1 R2 : k < 1 -> R1 < R2 -> 1 < R1 * k -> a + 1 <= ln (R1 * k) -> vd_cd k M R2 < vd_cd k M R1.
  Proof.
    intros Hlt H12 H1k Hl. unfold vd_cd; rops.
    replace (Reqb k 0) with false by (symmetry; apply Reqb_false; lra).
    replace (Rltb k 1) with true by (symmetry; apply Rltb_true; lra).
    pose proof (turb_part_nonincr R1 R2 H12 H1k Hl) as Ht. unfold turb_part in Ht.
    assert (H0 : 0 < R1 * k) by lra.
    assert (Hm : R1 * k < R2 * k) by (apply Rmult_lt_compat_r; lra).
    pose proof (cd_lam_decr (R1 * k) (R2 * k) H0 Hm). nra.
  Qed.
End Mixed.

(* every laminar fraction in [0, 1] *)
Lemma vd_cd_decr k M R1 R2 : 0 <= k -> k <= 1 -> 1 < R1 -> R1 < R2 -> (0 < k < 1 -> 358 / 100 <= ln (R1 * k)) ->
  vd_cd k M R2 < vd_cd k M R1.
Proof.
  intros Hk0 Hk1 H1 H12 Hl.
  destruct (Req_dec k 0) as [E0|N0]; [apply vd_cd_decr_partial; auto|].
  destruct (Req_dec k 1) as [E1|N1]; [apply vd_cd_decr_partial; [right; lra | assumption | assumption]|].
  assert (Hk : 0 < k < 1) by lra. specialize (Hl Hk).
  apply vd_cd_decr_mixed; try lra.
  - assert (0 < R1 * k) by (apply Rmult_lt_0_compat; lra).
    apply Rnot_le_lt; intros Hc. assert (ln (R1 * k) <= ln 1).
    { destruct Hc as [Hc|Hc]; [left; apply ln_increasing; assumption | rewrite Hc; lra]. }
    rewrite ln_1 in *. lra.
Qed.

Lemma CDv_decreasing_in_Re np sym k cmax re1 re2 M S_ref (widths lsp lengths toc : nat -> R) :
  (0 < np)%nat -> 0 <= k -> k <= 1 -> 0 < cmax -> 0 < M -> 0 < S_ref ->
  (forall j, (j < np)%nat -> 0 < widths j) ->
  (forall j, (j < np)%nat -> 0 < vd_chord lengths j) ->
  (forall j, (j < np)%nat -> 0 <= toc j) ->
  (forall j, (j < np)%nat -> 1 < re1 * vd_chord lengths j) ->
  (forall j, (j < np)%nat -> 0 < k < 1 -> 358 / 100 <= ln (re1 * vd_chord lengths j * k)) ->
  0 < re1 -> re1 < re2 ->
  viscous_CDv np sym k cmax re2 M S_ref widths lsp lengths toc true
  < viscous_CDv np sym k cmax re1 M S_ref widths lsp lengths toc true.
Proof.
  intros Hnp Hk0 Hk1 Hc HM HS Hw Hch Ht HRe HRek Hre1 Hre.
  unfold viscous_CDv, vd_Doq, o2; rops.
  assert (Hs : rsum np (fun j => vd_doq k re2 M lengths j * widths j * vd_FF cmax M (toc j) (vd_cos widths lsp j))
             < rsum np (fun j => vd_doq k re1 M lengths j * widths j * vd_FF cmax M (toc j) (vd_cos widths lsp j))).
  { apply rsum_lt; [exact Hnp|]. intros j Hj.
    assert (HF : 0 < vd_FF cmax M (toc j) (vd_cos widths lsp j)).
    { unfold vd_FF; rops. apply Rmult_lt_0_compat; [apply vd_kFF_pos; auto | apply Rpower_pos]. }
    apply Rmult_lt_compat_r; [exact HF|]. apply Rmult_lt_compat_r; [apply Hw, Hj|].
    unfold vd_doq, o2; rops. pose proof (Hch j Hj) as Hcj.
    apply Rmult_lt_compat_r; [exact Hcj|]. apply Rmult_lt_compat_l; [lra|].
    apply vd_cd_decr; [assumption | assumption | apply HRe, Hj | apply Rmult_lt_compat_r; assumption | apply HRek, Hj]. }
  assert (0 < / S_ref) by (apply Rinv_0_lt_compat, HS).
  destruct sym; unfold Rdiv; nra.
Qed.
