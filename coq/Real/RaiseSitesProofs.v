(* RaiseSitesProofs.v — the rejection guards regenerated from /repo are the reviewed ones (a finite, concrete comparison
   of two lists of strings, decided by computation). *)
From Coq Require Import String List.
From OAS Require Import TieBase RaiseSites RaiseSitesReviewed.
Import ListNotations.

Lemma raise_sites_reviewed : gen_raise_sites = reviewed_raise_sites.
Proof. apply sites_eqb_sound. vm_compute. reflexivity. Qed.

(* the guard of the parity check of the mesh generator is the parity of num_y alone *)
Lemma parity_guard_alone :
  In ("geometry/utils.py", "generate_mesh", "ValueError", ["not num_y % 2"])%string gen_raise_sites.
Proof. rewrite raise_sites_reviewed. unfold reviewed_raise_sites. repeat (first [left; reflexivity | right]). Qed.
