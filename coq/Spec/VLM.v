(* Spec/VLM.v — textbook vortex-lattice definitions, written independently of the code
   (Katz & Plotkin, Low-Speed Aerodynamics, sec. 10.4.5 / 12.3; Bertin & Smith ch. 7). *)
From Coq Require Import Reals.
From OAS Require Import Scalar Rops.
Open Scope R_scope.

(* velocity induced at P by a straight vortex segment of unit strength from A to B *)
Definition bs_segment (P A B : nat -> R) (d : nat) : R :=
  let r1 := vsub P A in let r2 := vsub P B in
  let r0 := vsub r1 r2 in                       (* = B - A *)
  let c := cross r1 r2 in
  1 / (4 * PI) * (c d / dot c c)
  * (dot r0 (fun k => r1 k / nrm r1 - r2 k / nrm r2)).

(* velocity induced at P by a semi-infinite vortex of unit strength leaving A along the unit vector u *)
Definition bs_semi_out (P A u : nat -> R) (d : nat) : R :=
  let r := vsub P A in let c := cross u r in
  1 / (4 * PI) * (c d / dot c c) * (1 + dot u r / nrm r).

(* flow tangency of a set of n unit-strength influence fields ind p q (a 3-vector for each
   collocation point p and vortex element q) with strengths G, onset velocities V and normals nv *)
Definition tangent (n : nat) (ind : nat -> nat -> nat -> R) (V nv : nat -> nat -> R) (G : nat -> R) : Prop :=
  forall p, (p < n)%nat ->
    dot (fun d => V p d + rsum n (fun q => ind p q d * G q)) (nv p) = 0.

(* Kutta-Joukowski force on a bound vortex segment l carrying circulation g in the local velocity W *)
Definition kutta_joukowski (rho g : R) (W l : nat -> R) (d : nat) : R := rho * g * cross W l d.
