(* Adjoint.v — the unified derivatives equation in both modes, for systems of arbitrary size.
   Residuals R(x,u) = 0 with n states and m inputs, p functions F(x,u):
     A = dR/du (n x n),  B = dR/dx (n x m),  C = dF/du (p x n),  D = dF/dx (p x m).
   forward (direct) mode: solve A Phi = -B, total = D + C Phi;
   reverse (adjoint) mode: solve A^T Psi = C^T, total = D - Psi^T B. *)
From Coq Require Import Reals Arith.
From OAS Require Import Scalar Rops Sums.
Open Scope R_scope.

Definition mmul (n : nat) (X Y : nat -> nat -> R) (i j : nat) : R := rsum n (fun k => X i k * Y k j).
Definition tr (X : nat -> nat -> R) (i j : nat) : R := X j i.
Definition tot_fwd (n : nat) (C D Phi : nat -> nat -> R) (i j : nat) : R := D i j + mmul n C Phi i j.
Definition tot_rev (n : nat) (B D Psi : nat -> nat -> R) (i j : nat) : R := D i j - mmul n (tr Psi) B i j.
(* Phi solves the forward system / Psi solves the adjoint system (entrywise, on the index ranges) *)
Definition solves_fwd (n m : nat) (A B Phi : nat -> nat -> R) : Prop :=
  forall i j, (i < n)%nat -> (j < m)%nat -> mmul n A Phi i j = - B i j.
Definition solves_rev (n p : nat) (A C Psi : nat -> nat -> R) : Prop :=
  forall i j, (i < n)%nat -> (j < p)%nat -> mmul n (tr A) Psi i j = tr C i j.
