(* Spec/Beam.v — the textbook 3-D Euler-Bernoulli frame element (e.g. Przemieniecki, Theory of Matrix
   Structural Analysis, sec. 5.6; Cook et al. ch. 2), DOF order (u,v,w,rx,ry,rz) at node 0 then node 1,
   local x along the element.  Written independently of the code's tables. *)
From Coq Require Import Reals List.
Import ListNotations.
Open Scope R_scope.

(* plane-bending sub-matrices in the order (deflection0, rotation0, deflection1, rotation1), times EI/L^3 *)
Definition bend_xy (L : R) : list (list R) :=       (* v, rz : positive rotation raises v downstream *)
  [[12; 6 * L; -12; 6 * L]; [6 * L; 4 * L * L; - 6 * L; 2 * L * L];
   [-12; - 6 * L; 12; - 6 * L]; [6 * L; 2 * L * L; - 6 * L; 4 * L * L]].
Definition bend_xz (L : R) : list (list R) :=       (* w, ry : positive rotation lowers w downstream *)
  [[12; - 6 * L; -12; - 6 * L]; [- 6 * L; 4 * L * L; 6 * L; 2 * L * L];
   [-12; 6 * L; 12; 6 * L]; [- 6 * L; 2 * L * L; 6 * L; 4 * L * L]].
Definition rnth2 (t : list (list R)) (i j : nat) : R := nth j (nth i t []) 0.

(* position of a DOF inside its sub-problem: (kind, index) *)
Definition pair_sign (n m : nat) : R := if Nat.eqb n m then 1 else -1.
Definition frame_element (E G A J Iy Iz L : R) (p q : nat) : R :=
  let n := (p / 6)%nat in let c := (p mod 6)%nat in let m := (q / 6)%nat in let k := (q mod 6)%nat in
  match c, k with
  | 0%nat, 0%nat => E * A / L * pair_sign n m
  | 3%nat, 3%nat => G * J / L * pair_sign n m
  | 1%nat, 1%nat => E * Iz / (L * L * L) * rnth2 (bend_xy L) (2 * n) (2 * m)
  | 1%nat, 5%nat => E * Iz / (L * L * L) * rnth2 (bend_xy L) (2 * n) (2 * m + 1)
  | 5%nat, 1%nat => E * Iz / (L * L * L) * rnth2 (bend_xy L) (2 * n + 1) (2 * m)
  | 5%nat, 5%nat => E * Iz / (L * L * L) * rnth2 (bend_xy L) (2 * n + 1) (2 * m + 1)
  | 2%nat, 2%nat => E * Iy / (L * L * L) * rnth2 (bend_xz L) (2 * n) (2 * m)
  | 2%nat, 4%nat => E * Iy / (L * L * L) * rnth2 (bend_xz L) (2 * n) (2 * m + 1)
  | 4%nat, 2%nat => E * Iy / (L * L * L) * rnth2 (bend_xz L) (2 * n + 1) (2 * m)
  | 4%nat, 4%nat => E * Iy / (L * L * L) * rnth2 (bend_xz L) (2 * n + 1) (2 * m + 1)
  | _, _ => 0
  end.
