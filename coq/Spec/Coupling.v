(* Coupling.v — the aerostructural coupling as a fixed-point problem over state vectors of any size.
   A : displacements -> loads (deformed mesh, flow solve, load transfer);  S : loads -> displacements (FEM solve).
   The block Gauss-Seidel sweep is G = S o A on displacements. *)
From Coq Require Import Reals Arith.
From OAS Require Import Scalar Rops Sums.
Open Scope R_scope.

Definition vec := nat -> R.
Definition dist (n : nat) (x y : vec) : R := rsum n (fun i => Rabs (x i - y i)).
Definition eqn (n : nat) (x y : vec) : Prop := forall i, (i < n)%nat -> x i = y i.
(* a consistent aerostructural state: the loads are those of the flow about the structure deformed by u,
   and u is the displacement under these loads *)
Definition consistent (nu nl : nat) (A S : vec -> vec) (u l : vec) : Prop := eqn nl l (A u) /\ eqn nu u (S l).
Definition contraction (n : nat) (q : R) (G : vec -> vec) : Prop :=
  0 <= q < 1 /\ forall x y, dist n (G x) (G y) <= q * dist n x y.
(* what any supported nonlinear solver returns: a state whose sweep residual is within the tolerance *)
Definition converged (n : nat) (eps : R) (G : vec -> vec) (x : vec) : Prop := dist n x (G x) <= eps.
