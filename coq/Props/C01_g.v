(* C01 - analytic component derivatives equal the true derivatives.  Property theorems only (statements printed by Coq from the libraries Real/*Deriv.v).  DR g t0 p  :=  g t0 = fst p /\ is_derive g t0 (snd p);  every theorem says: along ANY differentiable curve of the inputs, the dual-number evaluation of the component model gives the value and the derivative - hence every partial derivative (C01_dual_number_tangent_is_the_partial_derivative) and, by composition, every chain of components (part 7) *)
From Coq Require Import Reals ZArith Lra Lia Arith Bool List String.
From Coquelicot Require Import Coquelicot.
From OAS Require Import Scalar Rops Sums Deriv Dual DualProofs Drag DragDeriv Stress StressDeriv StressProofs Transfer TransferDeriv Loads LoadsDeriv Functionals FunctionalsDeriv Aero AeroDeriv PG PGDeriv Beam BeamTables BeamDeriv Geom GeomDeriv Misc MiscDeriv MultiSec MultiSecDeriv Wingbox WingboxDeriv Small SmallDeriv Mphys MphysDeriv.
Open Scope R_scope.

Theorem C01_LocalStiffPermuted :
  forall (Kl : R -> nat -> nat -> R) (t0 : R) (kl : nat -> nat -> dual R) (j k : nat),
  DR2 Kl t0 kl -> DR (fun t : R => permuted (Kl t) j k) t0 (permuted kl j k).
Proof. exact permuted_DR. Qed.
Print Assumptions C01_LocalStiffPermuted.

Theorem C01_Transform :
  forall (N : R -> nat -> nat -> R) (t0 : R) (n : nat -> nat -> dual R) (e : nat),
  DR2 N t0 n ->
  StressDeriv.nz3 (vsub (N t0 (S e)) (N t0 e)) ->
  StressDeriv.nz3 (cross (loc_x (N t0 e) (N t0 (S e))) e_x) ->
  forall i j : nat, DR (fun t : R => transform (N t) e i j) t0 (transform n e i j).
Proof. exact transform_DR. Qed.
Print Assumptions C01_Transform.

Theorem C01_LocalStiffTransformed :
  forall (Tm Kp : R -> nat -> nat -> R) (t0 : R) (tm kp : nat -> nat -> dual R) (j k : nat),
  DR2 Tm t0 tm -> DR2 Kp t0 kp -> DR (fun t : R => transformed (Tm t) (Kp t) j k) t0 (transformed tm kp j k).
Proof. exact transformed_DR. Qed.
Print Assumptions C01_LocalStiffTransformed.

(* implicit component: dR/du = K_aug, dR/dK_e, dR/dforces *)
Theorem C01_FEM_residual :
  forall (ne root : nat) (Kl : R -> nat -> nat -> nat -> R) (F U : R -> nat -> R) (t0 : R)
    (kl : nat -> nat -> nat -> dual R) (f u : nat -> dual R) (p : nat),
  DR3 Kl t0 kl ->
  DR1 F t0 f ->
  DR1 U t0 u -> DR (fun t : R => fem_residual ne root (Kl t) (F t) (U t) p) t0 (fem_residual ne root kl f u p).
Proof. exact fem_residual_DR. Qed.
Print Assumptions C01_FEM_residual.

(* off the tiny-load zeroing threshold *)
Theorem C01_CreateRHS :
  forall (ny : nat) (Ld : R -> nat -> nat -> R) (t0 : R) (ld : nat -> nat -> dual R) (p : nat),
  DR2 Ld t0 ld ->
  ((p < 6 * ny)%nat ->
   Ld t0 (p / 6)%nat (p mod 6) <> 0 /\ Rabs (0 + Ld t0 (p / 6)%nat (p mod 6)) <> gen_rhs_threshold) ->
  DR (fun t : R => create_rhs ny (Ld t) p) t0 (create_rhs ny ld p).
Proof. exact create_rhs_DR. Qed.
Print Assumptions C01_CreateRHS.

Theorem C01_Disp :
  forall (U : R -> nat -> R) (t0 : R) (u : nat -> dual R) (n c : nat),
  DR1 U t0 u -> DR (fun t : R => disp_of (U t) n c) t0 (disp_of u n c).
Proof. exact disp_of_DR. Qed.
Print Assumptions C01_Disp.

(* geometry transformations; the mesh is an option of Taper *)
Theorem C01_Taper :
  forall (npx npy : nat) (sym : bool) (rap : R) (m0 : nat -> nat -> nat -> R) (Tp : R -> R) 
    (t0 : R) (tp : dual R),
  DR Tp t0 tp ->
  ref_axis npx rap m0 npy 1 - ref_axis npx rap m0 0 1 <> 0 ->
  forall i j d : nat,
  DR (fun t : R => taper_mesh npx npy sym rap (Tp t) m0 i j d) t0
    (taper_mesh npx npy sym (dinj rap) tp (fun i0 j0 d0 : nat => dinj (m0 i0 j0 d0)) i j d).
Proof. exact taper_mesh_DR. Qed.
Print Assumptions C01_Taper.

(* what the special case of the unrepaired compute_partials returned (0) was wrong (fixed finding F01) *)
Theorem C01_Taper_partial_at_one_is_not_zero :
  exists dv : R_NormedModule,
    is_derive (fun t : R_AbsRing => taper_mesh 1 1 true (1 / 4) t taper_ex_mesh 1 0 0) 1 dv /\ dv <> 0.
Proof. exact taper_partial_at_one_nonzero. Qed.
Print Assumptions C01_Taper_partial_at_one_is_not_zero.

Theorem C01_ScaleX :
  forall (npx : nat) (M : R -> nat -> nat -> nat -> R) (Rap : R -> R) (t0 : R) (m : nat -> nat -> nat -> dual R)
    (rap : dual R),
  DR3 M t0 m ->
  DR Rap t0 rap ->
  forall (Ch : R -> nat -> R) (ch : nat -> dual R) (i j d : nat),
  DR1 Ch t0 ch ->
  DR (fun t : R => scalex_mesh npx (Rap t) (Ch t) (M t) i j d) t0 (scalex_mesh npx rap ch m i j d).
Proof. exact scalex_mesh_DR. Qed.
Print Assumptions C01_ScaleX.

Theorem C01_Sweep :
  forall (npy : nat) (M : R -> nat -> nat -> nat -> R) (t0 : R) (m : nat -> nat -> nat -> dual R),
  DR3 M t0 m ->
  forall (sym : bool) (Ang : R -> R) (ang : dual R) (i j d : nat),
  DR Ang t0 ang ->
  cos (PI / 180 * Ang t0) <> 0 ->
  DR (fun t : R => sweep_mesh npy sym (Ang t) (M t) i j d) t0 (sweep_mesh npy sym ang m i j d).
Proof. exact sweep_mesh_DR. Qed.
Print Assumptions C01_Sweep.

Theorem C01_Dihedral :
  forall (npy : nat) (M : R -> nat -> nat -> nat -> R) (t0 : R) (m : nat -> nat -> nat -> dual R),
  DR3 M t0 m ->
  forall (sym : bool) (Ang : R -> R) (ang : dual R) (i j d : nat),
  DR Ang t0 ang ->
  cos (PI / 180 * Ang t0) <> 0 ->
  DR (fun t : R => dihedral_mesh npy sym (Ang t) (M t) i j d) t0 (dihedral_mesh npy sym ang m i j d).
Proof. exact dihedral_mesh_DR. Qed.
Print Assumptions C01_Dihedral.

Theorem C01_ShearXYZ :
  forall (M : R -> nat -> nat -> nat -> R) (t0 : R) (m : nat -> nat -> nat -> dual R),
  DR3 M t0 m ->
  forall (axis : nat) (Sh : R -> nat -> R) (sh : nat -> dual R) (i j d : nat),
  DR1 Sh t0 sh -> DR (fun t : R => shear_mesh axis (Sh t) (M t) i j d) t0 (shear_mesh axis sh m i j d).
Proof. exact shear_mesh_DR. Qed.
Print Assumptions C01_ShearXYZ.

