(* C12_wiring.v - the structure of the coupled loop, decided on the data-flow graphs of the six canonical AerostructPoint models
   (tube / wing box, weight relief, fuel, point masses, compressible, rotational, two surfaces), which are regenerated from the
   live OpenMDAO problems on every run and tied to the reviewed copies by Props/C12_ties.v.  Property theorems only (Real/WiringLoops.v):
     - every connection that lies on a cycle of components has both ends inside <point>.coupled, the group the nonlinear solver
       iterates: nothing computed after the loop feeds back into it (the converged state is a fixed point of ALL feedback);
     - there is feedback, and it is the expected loop: deformed mesh -> aerodynamic states (solve_matrix, sectional forces) ->
       load transfer -> structure (fem) -> displacements -> deformed mesh. *)
From Coq Require Import String List Bool.
From OAS Require Import WiringReviewed WiringLoops.
Theorem C12_all_feedback_is_inside_the_coupled_group :
  forallb (fun n => feedback_inside_coupled n && has_feedback n && loop_present n) aerostruct_models = true /\
  List.length aerostruct_models = 6%nat.
Proof. exact aerostruct_feedback_is_inside_the_coupled_group. Qed.
Print Assumptions C12_all_feedback_is_inside_the_coupled_group.
