(* C14 — generated meshes are well-formed, ordered and consistent between half and full.
   Property theorems only; proofs in Real/MeshProofs.v. *)
From Coq Require Import Reals Arith Lia.
From OAS Require Import Scalar Rops Sums MeshGen MeshProofs.
Open Scope R_scope.

(* rectangular wings: any num_x >= 2, any odd num_y = 2h+1 >= 3, span, chord > 0, cosine blends in [0,1] *)
Theorem C14_rect_extents :
  forall num_x h span chord scs ccs, (1 <= h)%nat -> (2 <= num_x)%nat -> 0 <= scs <= 1 ->
    rect_y h span scs 0 = - (span / 2) /\ rect_y h span scs (2 * h) = span / 2 /\ rect_y h span scs h = 0 /\
    rect_x num_x chord ccs 0 = 0 /\ rect_x num_x chord ccs (num_x - 1) = chord.
Proof.
  intros. split; [eapply (rect_y_first num_x); eauto|]. split; [eapply (rect_y_last num_x); eauto|].
  split; [eapply (rect_y_root_on_plane num_x); eauto|]. split; [eapply (rect_x_first num_x h) | eapply (rect_x_last num_x h)]; eauto.
Qed.
Print Assumptions C14_rect_extents.

Theorem C14_rect_y_strictly_increasing :
  forall h span scs j j', (1 <= h)%nat -> 0 < span -> 0 <= scs <= 1 -> (j < j')%nat -> (j' <= 2 * h)%nat ->
    rect_y h span scs j < rect_y h span scs j'.
Proof. intros; eapply (rect_y_incr 2); eauto. Qed.
Print Assumptions C14_rect_y_strictly_increasing.

Theorem C14_rect_x_strictly_increasing :
  forall num_x chord ccs i i', (2 <= num_x)%nat -> 0 < chord -> 0 <= ccs <= 1 -> (i < i')%nat -> (i' < num_x)%nat ->
    rect_x num_x chord ccs i < rect_x num_x chord ccs i'.
Proof. intros; eapply (rect_x_incr num_x 1); eauto. Qed.
Print Assumptions C14_rect_x_strictly_increasing.

Theorem C14_rect_mirror_symmetric :
  forall h span scs j, (1 <= h)%nat -> 0 <= scs <= 1 -> (j <= 2 * h)%nat ->
    rect_y h span scs (2 * h - j) = - rect_y h span scs j.
Proof. intros; eapply (rect_y_mirror 2); eauto. Qed.
Print Assumptions C14_rect_mirror_symmetric.

Theorem C14_offset_is_translation :
  forall (off : nat -> R) (m : nat -> nat -> nat -> R) i j d, with_offset off m i j d - m i j d = off d.
Proof. exact offset_is_translation. Qed.
Print Assumptions C14_offset_is_translation.

(* the symmetric half is the first (num_y+1)/2 columns of the full mesh (by construction of generate_mesh);
   mirroring it back reproduces any mirror-symmetric full mesh node for node *)
Theorem C14_mirroring_half_reproduces_full :
  forall npy (full : nat -> nat -> nat -> R) i j d, (d < 3)%nat -> (j <= 2 * npy)%nat ->
    (forall j' d', (j' <= 2 * npy)%nat -> (d' < 3)%nat ->
        full i (2 * npy - j')%nat d' = (if (d' =? 1)%nat then - full i j' d' else full i j' d')) ->
    full_from_left npy full i j d = full i j d.
Proof. exact getFullMesh_of_left_half. Qed.
Print Assumptions C14_mirroring_half_reproduces_full.

(* np.linspace: both ends hit, strictly increasing *)
Theorem C14_linspace :
  forall a b n k k', (2 <= n)%nat -> a < b -> (k < k')%nat -> (k' < n)%nat ->
    linspace a b n 0 = a /\ linspace a b n (n - 1) = b /\ linspace a b n k < linspace a b n k'.
Proof. intros; split; [apply linspace_first | split; [apply linspace_last | apply linspace_incr]]; assumption. Qed.
Print Assumptions C14_linspace.

(* multi-section wings (symmetric branch): for any number of sections, the root edge of each section is,
   point for point, the tip edge of its inboard neighbour *)
Theorem C14_sections_join_with_coincident_edges :
  forall nx (root : @Edge R) (s s' : @Sec R) i, (2 <= nx)%nat -> s_span s <> 0 ->
    e_te (sec_tip nx root s) <= e_le (sec_tip nx root s) -> (i < nx)%nat ->
    sec_x nx (next_edge nx root s) s' i (e_y (next_edge nx root s)) = sec_x nx root s i (e_y root - s_span s).
Proof. intros; eapply sections_join; eassumption. Qed.
Print Assumptions C14_sections_join_with_coincident_edges.

(* the asymmetric branch as it was written before fix 6265a26 (slope over b/2) did not end on its own tip line
   (finding F08, fixed; the model member is kept so that the refutation stays checked) *)
Theorem C14_sections_join_asym_refuted :
  forall nx (root : @Edge R) (s : @Sec R) i, s_span s <> 0 ->
    let root_c := Rabs (e_le root - e_te root) in
    let tip_le := e_le root + s_span s * tan (s_sweep s) in let tip_te := tip_le - root_c * s_taper s in
    let rx := linspace (e_le root) (e_te root) nx i in
    let tx := if Reqb tip_le tip_te then tip_le else linspace tip_le tip_te nx i in
    sec_x_right_as_written nx root s i (e_y root + s_span s) = rx + 2 * (tx - rx) /\
    (tx <> rx -> sec_x_right_as_written nx root s i (e_y root + s_span s) <> tx).
Proof. exact sections_join_asym_refuted. Qed.
Print Assumptions C14_sections_join_asym_refuted.

(* the asymmetric branch as repaired: sections right of the root share their edges too, for any number of sections *)
Theorem C14_sections_right_of_root_join_with_coincident_edges :
  forall nx (root : @Edge R) (s s' : @Sec R) i, (2 <= nx)%nat -> s_span s <> 0 ->
    e_te (sec_tip_right nx root s) <= e_le (sec_tip_right nx root s) -> (i < nx)%nat ->
    sec_x_right nx (next_edge_right nx root s) s' i (e_y (next_edge_right nx root s)) = sec_x_right nx root s i (e_y root + s_span s).
Proof. intros; eapply sections_join_right; eassumption. Qed.
Print Assumptions C14_sections_right_of_root_join_with_coincident_edges.

(* ---- GeomMultiUnification (no leading-edge shift) reproduces the stitched surface (Real/UnifyProofs.v): the first
   section keeps its columns but the last, every later section sits, column for column, at the offset
   sum of (ny - 1) of the sections before it, and only the last section keeps its last column ---- *)
From Coq Require Import List.
Import ListNotations.
From OAS Require Import MultiSec UnifyProofs.
Theorem C14_unification_reproduces_the_sections :
  forall ny0 (m0 : nat -> nat -> nat -> R) (pre : list (nat * (nat -> nat -> nat -> R))) ny (m : nat -> nat -> nat -> R) suf,
    (1 <= ny0)%nat ->
    let U := fst (unify false ((ny0, m0) :: pre ++ (ny, m) :: suf)) in
    (forall i j d, (j < ny0 - 1)%nat -> U i j d = m0 i j d) /\
    (forall i k d, (k < match suf with [] => ny | _ => ny - 1 end)%nat ->
       U i (ny0 - 1 + width_before pre + k)%nat d = m i k d).
Proof. exact unify_reproduces_sections. Qed.
Print Assumptions C14_unification_reproduces_the_sections.

(* with coincident shared edges nothing is lost: the dropped last column of a section is the next section's first *)
Theorem C14_unification_keeps_shared_edges :
  forall ny0 (m0 : nat -> nat -> nat -> R) (pre : list (nat * (nat -> nat -> nat -> R))) ny (m : nat -> nat -> nat -> R)
         ny' (m' : nat -> nat -> nat -> R) suf i d,
    (1 <= ny)%nat -> (2 <= ny')%nat -> m i (ny - 1)%nat d = m' i 0%nat d ->
    fst (unify false ((ny0, m0) :: pre ++ (ny, m) :: (ny', m') :: suf)) i (ny0 - 1 + width_before pre + (ny - 1))%nat d
    = m i (ny - 1)%nat d.
Proof. exact unify_shared_edge. Qed.
Print Assumptions C14_unification_keeps_shared_edges.
