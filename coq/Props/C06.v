(* C06 — aerodynamic results obey dynamic-pressure, scaling and translation laws.
   Property theorems only; proofs in Real/AeroProofs.v (area-weighted totals: see C17). *)
From Coq Require Import Reals Arith.
From OAS Require Import Scalar Rops Sums Stress Vec3 Aero VLM AeroProofs Functionals FunctionalsProofs.
Open Scope R_scope.

(* ---- density and speed ---- *)
Theorem C06_onset_linear_in_speed :
  forall (a b v c : R) d, freestream a b (c * v) d = c * freestream a b v d.
Proof. exact freestream_linear_v. Qed.
Print Assumptions C06_onset_linear_in_speed.

(* same matrix, right-hand side scaled by c  =>  the solution scales by c (any size) *)
Theorem C06_circulation_linear_in_speed :
  forall n (mtx : nat -> nat -> R) (rhs G : nat -> R) c,
    (forall p, (p < n)%nat -> solve_residual n mtx rhs G p = 0) ->
    forall p, (p < n)%nat -> solve_residual n mtx (fun p => c * rhs p) (fun q => c * G q) p = 0.
Proof. exact solution_scales_with_onset. Qed.
Print Assumptions C06_circulation_linear_in_speed.

Theorem C06_rhs_linear_in_onset :
  forall (fs normals : nat -> nat -> R) c p,
    aic_rhs (fun p d => c * fs p d) normals p = c * aic_rhs fs normals p.
Proof. exact rhs_linear. Qed.
Print Assumptions C06_rhs_linear_in_onset.

Theorem C06_local_velocity_linear_in_speed :
  forall n (fs : nat -> nat -> R) velm (G : nat -> R) c p d,
    eval_velocity n (fun p d => c * fs p d) velm (fun q => c * G q) p d = c * eval_velocity n fs velm G p d.
Proof. exact eval_velocity_scales. Qed.
Print Assumptions C06_local_velocity_linear_in_speed.

(* sectional forces: linear in density, quadratic in speed *)
Theorem C06_forces_linear_rho_quadratic_v :
  forall rho (hs : nat -> R) (vel bv : nat -> nat -> R) cr cv p d, (d < 3)%nat ->
    panel_force (cr * rho) (fun p => cv * hs p) (fun p d => cv * vel p d) bv p d
    = cr * (cv * cv) * panel_force rho hs vel bv p d.
Proof. exact panel_force_scaling. Qed.
Print Assumptions C06_forces_linear_rho_quadratic_v.

(* ---- length scale ---- *)
Theorem C06_kernel_homogeneous :
  forall k (r1 r2 : nat -> R) d, 0 < k ->
    vtol < Rabs (nrm r1 * nrm r2 + dot r1 r2) -> vtol < Rabs (k * k * (nrm r1 * nrm r2 + dot r1 r2)) ->
    0 < nrm r1 -> 0 < nrm r2 ->
    fv (vscal k r1) (vscal k r2) d = fv r1 r2 d / k.
Proof. exact fv_homogeneous. Qed.
Print Assumptions C06_kernel_homogeneous.

Theorem C06_wake_leg_homogeneous :
  forall k (u r : nat -> R) d, 0 < k -> 0 < nrm r -> nrm r - dot u r <> 0 ->
    semi u (vscal k r) d = semi u r d / k.
Proof. exact semi_homogeneous. Qed.
Print Assumptions C06_wake_leg_homogeneous.

Theorem C06_ring_influence_scales_inverse_length :
  forall npx (vec : nat -> nat -> nat -> nat -> R) k b e i j d, 0 < k ->
    let A := vtx npx vec b e i (S j) in let B := vtx npx vec b e i j in
    let C := vtx npx vec b e (S i) j in let D := vtx npx vec b e (S i) (S j) in
    seg_ok k A B -> seg_ok k B C -> seg_ok k C D -> seg_ok k D A ->
    ring_raw npx (fun e i j d => k * vec e i j d) b e i j d = ring_raw npx vec b e i j d / k.
Proof. exact ring_raw_homogeneous. Qed.
Print Assumptions C06_ring_influence_scales_inverse_length.

(* the absolute tolerance of the kernel makes the guard necessary: below it the kernel is 0 *)
Theorem C06_absolute_tolerance_breaks_scaling :
  forall (r1 r2 : nat -> R) d, Rabs (nrm r1 * nrm r2 + dot r1 r2) <= vtol -> fv r1 r2 d = 0.
Proof. exact fv_below_tol. Qed.
Print Assumptions C06_absolute_tolerance_breaks_scaling.

Theorem C06_forces_scale_with_length_squared :
  forall rho (hs : nat -> R) (vel bv : nat -> nat -> R) k p d, (d < 3)%nat ->
    panel_force rho (fun p => k * hs p) vel (fun p d => k * bv p d) p d = k * k * panel_force rho hs vel bv p d.
Proof. exact panel_force_length_scaling. Qed.
Print Assumptions C06_forces_scale_with_length_squared.

Theorem C06_coefficients_invariant :
  forall X rho v S cr cv k, cr <> 0 -> cv <> 0 -> k <> 0 -> rho <> 0 -> v <> 0 -> S <> 0 ->
    coeff (cr * (cv * cv) * (k * k) * X) (cr * rho) (cv * v) (k * k * S) = coeff X rho v S.
Proof. exact coeff_invariant. Qed.
Print Assumptions C06_coefficients_invariant.

(* ---- translation ---- *)
Theorem C06_translation_invariant_influence :
  forall (pts : nat -> nat -> R) (vm : nat -> nat -> nat -> R) (t : nat -> R) e i j d,
    get_vectors (fun e d => pts e d + t d) (fun i j d => vm i j d + t d) e i j d = get_vectors pts vm e i j d.
Proof. exact get_vectors_translation. Qed.
Print Assumptions C06_translation_invariant_influence.

Theorem C06_lattice_translates_with_mesh :
  forall npx (m : nat -> nat -> nat -> R) (t : nat -> R) i j d,
    qc_rows npx (fun i j d => m i j d + t d) i j d = qc_rows npx m i j d + t d /\
    coll_pts (fun i j d => m i j d + t d) i j d = coll_pts m i j d + t d /\
    force_pts_c (fun i j d => m i j d + t d) i j d = force_pts_c m i j d + t d /\
    bound_vecs (fun i j d => m i j d + t d) i j d = bound_vecs m i j d.
Proof. exact lattice_translation. Qed.
Print Assumptions C06_lattice_translates_with_mesh.

Theorem C06_normals_translation_invariant :
  forall (m : nat -> nat -> nat -> R) (t : nat -> R) i j d, (d < 3)%nat ->
    g_ncross (fun i j d => m i j d + t d) i j d = g_ncross m i j d.
Proof. exact ncross_translation. Qed.
Print Assumptions C06_normals_translation_invariant.

(* ---- lift and drag are components of the summed panel force in the wind axes ---- *)
Theorem C06_wind_axes_orthonormal :
  forall a b : R,
    dot (lift_dir a) (lift_dir a) = 1 /\ dot (drag_dir a b) (drag_dir a b) = 1 /\ dot (lift_dir a) (drag_dir a b) = 0.
Proof. exact wind_axes_orthonormal. Qed.
Print Assumptions C06_wind_axes_orthonormal.

Theorem C06_drag_axis_is_free_stream :
  forall a_deg b_deg v d, (d < 3)%nat ->
    freestream a_deg b_deg v d = v * drag_dir (a_deg * PI / 180) (b_deg * PI / 180) d.
Proof. exact drag_dir_is_freestream. Qed.
Print Assumptions C06_drag_axis_is_free_stream.

Theorem C06_lift_drag_are_components :
  forall np a_deg b_deg (F : nat -> nat -> R),
    lift np false a_deg F = dot (fun d => rsum np (fun p => F p d)) (lift_dir (a_deg * PI / 180)) /\
    drag np false a_deg b_deg F = dot (fun d => rsum np (fun p => F p d)) (drag_dir (a_deg * PI / 180) (b_deg * PI / 180)) /\
    lift np true a_deg F = 2 * lift np false a_deg F /\ drag np true a_deg b_deg F = 2 * drag np false a_deg b_deg F.
Proof.
  intros. split; [apply lift_is_component|]. split; [apply drag_is_component|]. apply symmetric_lift_drag_doubled.
Qed.
Print Assumptions C06_lift_drag_are_components.

(* aircraft coefficients = reference-area weighted combination (shared with C17) *)
Theorem C06_totals_area_weighted :
  forall (cs : list (R * R)) S_tot rho v, S_tot <> 0 ->
    tld_coeff cs S_tot = rlsum cs (fun p => fst p * snd p) / S_tot /\
    tld_force cs rho v = (1 / 2 * rho * (v * v)) * S_tot * tld_coeff cs S_tot.
Proof. intros; split; [apply coeff_area_weighted | apply force_eq_q_S_C; assumption]. Qed.
Print Assumptions C06_totals_area_weighted.

(* ---- the laws through the whole VLMStates wiring of a surface (mesh -> lattice -> vectors -> matrix, rhs -> residual) ---- *)
From OAS Require Import ChainLaws.
Theorem C06_assembled_system_speed_scaling :
  forall (npx npy : nat) (sym left : bool) (al be v c : R) (m : nat -> nat -> nat -> R) (G : nat -> R),
    (forall p, (p < npx * npy)%nat -> chain_residual npx npy sym left al be v m G p = 0) ->
    forall p, (p < npx * npy)%nat -> chain_residual npx npy sym left al be (c * v) m (fun q => c * G q) p = 0.
Proof. exact chain_solution_scales_with_speed. Qed.
Print Assumptions C06_assembled_system_speed_scaling.

Theorem C06_assembled_system_translation_invariant :
  forall (npx npy : nat) (sym left : bool) (al be v : R) (m : nat -> nat -> nat -> R) (t : nat -> R),
    sym = false \/ t 1%nat = 0 ->
    (forall p q, chain_aic npx npy sym left al (shifted m t) p q = chain_aic npx npy sym left al m p q) /\
    (forall p, chain_rhs npy al be v (shifted m t) p = chain_rhs npy al be v m p) /\
    (forall G p, chain_residual npx npy sym left al be v (shifted m t) G p = chain_residual npx npy sym left al be v m G p).
Proof. exact chain_translation. Qed.
Print Assumptions C06_assembled_system_translation_invariant.


(* ---- moment coefficient (Real/MomentScaling.v) ---- *)
From Coq Require Import List.
From OAS Require Import MomentScaling.
(* scaling every length by c (mesh, centre of gravity; areas by c^2; forces by c^2, C06_forces_scale_with_length_squared)
   scales the moments by c^3 and the MAC by c: the moment coefficient is unchanged, for any number of surfaces *)
Theorem C06_moment_coefficient_invariant_under_length_scaling :
  forall c s0 ss cg rho v S_tot d,
    c <> 0 -> ms_Sref s0 <> 0 -> rho <> 0 -> v <> 0 -> S_tot <> 0 -> ms_MAC s0 <> 0 ->
    moment_CM (map (ms_scale c) (s0 :: ss)) (fun k => c * cg k) rho v (c * c * S_tot) d = moment_CM (s0 :: ss) cg rho v S_tot d.
Proof. exact CM_length_scaling_invariant. Qed.
Print Assumptions C06_moment_coefficient_invariant_under_length_scaling.

Theorem C06_MAC_scales_with_length :
  forall c s, c <> 0 -> ms_Sref s <> 0 -> ms_MAC (ms_scale c s) = c * ms_MAC s.
Proof. exact MAC_scales. Qed.
Print Assumptions C06_MAC_scales_with_length.

(* the dimensional moment is linear in a common factor of the panel forces (density, speed squared) *)
Theorem C06_moment_linear_in_force_scale :
  forall a ss cg d,
    moment_M (map (fun s => mkMSurf (ms_npx s) (ms_npy s) (ms_sym s) (ms_bpts s) (ms_widths s) (ms_chords s) (ms_Sref s)
                                     (fun i j k => a * ms_F s i j k)) ss) cg d = a * moment_M ss cg d.
Proof. exact M_force_scaling. Qed.
Print Assumptions C06_moment_linear_in_force_scale.

(* ---- uniform scaling of all lengths through the whole VLMStates wiring of one surface (Real/ChainScaling.v) ----
   chain_guard: every segment and wake leg of every panel, seen from every collocation point, stays on the same side of the
   kernel's absolute tolerance at both scales (C06_absolute_tolerance_breaks_scaling shows why that cannot be dropped).
   Then the influence matrix scales with 1/k, normals and right-hand side are unchanged, the circulations scale with k;
   symmetric or not, left or right half, any sizes *)
From OAS Require Import ChainScaling.
Theorem C06_assembled_system_length_scaling :
  forall (npx npy : nat) (sym left : bool) (k : R), 0 < k ->
  forall alpha beta v (m : nat -> nat -> nat -> R) (G : nat -> R),
    chain_guard npx npy sym left k alpha m ->
    (forall p q, (p < npx * npy)%nat -> (q < npx * npy)%nat ->
       chain_aic npx npy sym left alpha (scaled k m) p q = chain_aic npx npy sym left alpha m p q / k) /\
    (forall p, chain_rhs npy alpha beta v (scaled k m) p = chain_rhs npy alpha beta v m p) /\
    (forall p, (p < npx * npy)%nat -> chain_residual npx npy sym left alpha beta v (scaled k m) (fun q => k * G q) p
               = chain_residual npx npy sym left alpha beta v m G p).
Proof. exact chain_length_scaling. Qed.
Print Assumptions C06_assembled_system_length_scaling.

Theorem C06_circulations_scale_with_length :
  forall (npx npy : nat) (sym left : bool) (k : R), 0 < k ->
  forall alpha beta v (m : nat -> nat -> nat -> R) (G : nat -> R),
    chain_guard npx npy sym left k alpha m ->
    (forall p, (p < npx * npy)%nat -> chain_residual npx npy sym left alpha beta v m G p = 0) ->
    forall p, (p < npx * npy)%nat -> chain_residual npx npy sym left alpha beta v (scaled k m) (fun q => k * G q) p = 0.
Proof. exact chain_solution_scales_with_length. Qed.
Print Assumptions C06_circulations_scale_with_length.

(* non-vacuity: the guard holds for the unit one-panel wing at alpha = 0, scaled by 2 *)
Theorem C06_length_scaling_guard_is_satisfiable : chain_guard 1 1 false true 2 0 (SignPin.rect 1 1).
Proof. exact chain_guard_holds_somewhere. Qed.
Print Assumptions C06_length_scaling_guard_is_satisfiable.
