(* C15 — stress recovery and failure aggregation are consistent and conservative.
   Property theorems only; proofs in Real/StressProofs.v (frame lemmas in Real/Vec3.v). *)
From Coq Require Import Reals Arith Lra.
From Coquelicot Require Import Coquelicot.
From OAS Require Import Scalar Rops Sums Stress Vec3 Deriv StressProofs.
Open Scope R_scope.

(* ---- KS aggregate: conservative, tight, overflow-free, for every N = S n >= 1 and rho > 0 ---- *)
Theorem C15_ks_lower :
  forall n rho sigma vm, 0 < rho -> forall i, (i <= n)%nat ->
    ks_f sigma vm i <= failure_ks n rho sigma vm.
Proof. exact ks_lower. Qed.
Print Assumptions C15_ks_lower.

Theorem C15_ks_upper :
  forall n rho sigma vm, 0 < rho ->
    failure_ks n rho sigma vm <= ks_fmax n sigma vm + ln (INR (S n)) / rho.
Proof. exact ks_upper. Qed.
Print Assumptions C15_ks_upper.

Theorem C15_ks_fmax_is_max :
  forall n sigma vm, (forall i, (i <= n)%nat -> ks_f sigma vm i <= ks_fmax n sigma vm) /\
                     (exists i, (i <= n)%nat /\ ks_fmax n sigma vm = ks_f sigma vm i).
Proof. intros; split; [intros; apply maxn_ge; assumption | apply maxn_attained]. Qed.
Print Assumptions C15_ks_fmax_is_max.

Theorem C15_ks_exponents_nonpos :
  forall n rho sigma vm, 0 < rho -> forall i, (i <= n)%nat -> ks_expo n rho sigma vm i <= 0.
Proof. exact ks_exponents_nonpos. Qed.
Print Assumptions C15_ks_exponents_nonpos.

Theorem C15_ks_shift_invariant :
  forall n rho sigma vm, 0 < rho ->
    failure_ks n rho sigma vm = 1 / rho * ln (rsum (S n) (fun i => exp (rho * ks_f sigma vm i))).
Proof. exact ks_is_logsumexp. Qed.
Print Assumptions C15_ks_shift_invariant.

(* the derivative the component reports (incl. the arg-max correction term) is the true one *)
Theorem C15_ks_reported_derivative :
  forall n rho sigma vm k, 0 < rho -> sigma <> 0 -> (k <= n)%nat ->
    is_derive (fun t : R => failure_ks n rho sigma (upd1 vm k t)) (vm k) (ks_J n rho sigma vm k).
Proof. exact failure_ks_derive. Qed.
Print Assumptions C15_ks_reported_derivative.

Theorem C15_failure_exact_def :
  forall sigma vm i, failure_exact sigma vm i = vm i / sigma - 1.
Proof. reflexivity. Qed.
Print Assumptions C15_failure_exact_def.

Theorem C15_thickness_intersects_def :
  forall th r i, thickness_intersects th r i = th i - r i.
Proof. reflexivity. Qed.
Print Assumptions C15_thickness_intersects_def.

(* ---- von Mises stresses ---- *)
Theorem C15_vonmises_tube_nonneg :
  forall nodes disp e E G radius s, 0 <= vm_tube nodes disp e E G radius s.
Proof. intros; apply tube_vm_local_nonneg. Qed.
Print Assumptions C15_vonmises_tube_nonneg.

Theorem C15_vonmises_wingbox_nonneg :
  forall nodes disp e E G tssf Qz J A_enc tsp htop hbot hfront hrear s, 0 < tssf ->
    0 <= vm_wingbox nodes disp e E G tssf Qz J A_enc tsp htop hbot hfront hrear s.
Proof. intros; apply vm_wingbox_nonneg; assumption. Qed.
Print Assumptions C15_vonmises_wingbox_nonneg.

(* rigid-body motion: uniform translation *)
Theorem C15_vonmises_tube_translation_zero :
  forall nodes disp e (t : nat -> R) E G radius s,
    (forall n d, (d < 3)%nat -> disp n d = t d) ->
    (forall n d, (d < 3)%nat -> disp n (3 + d)%nat = 0) ->
    vm_tube nodes disp e E G radius s = 0.
Proof. intros; eapply vm_tube_translation_zero; eassumption. Qed.
Print Assumptions C15_vonmises_tube_translation_zero.

(* rigid-body motion: linearised rotation th about any point x0 (element of non-zero length) *)
Theorem C15_vonmises_tube_rotation_zero :
  forall nodes disp e (th x0 : nat -> R) E G radius s,
    0 < dot (vsub (P1 nodes e) (P0 nodes e)) (vsub (P1 nodes e) (P0 nodes e)) ->
    (forall n d, (d < 3)%nat -> disp n d = cross th (vsub (nodes n) x0) d) ->
    (forall n d, (d < 3)%nat -> disp n (3 + d)%nat = th d) ->
    vm_tube nodes disp e E G radius s = 0.
Proof. intros; eapply vm_tube_rotation_zero; eassumption. Qed.
Print Assumptions C15_vonmises_tube_rotation_zero.

Theorem C15_vonmises_wingbox_translation_zero :
  forall nodes disp e E G tssf Qz J A_enc tsp htop hbot hfront hrear (t : nat -> R) s,
    (forall n d, (d < 3)%nat -> disp n d = t d) ->
    (forall n d, (d < 3)%nat -> disp n (3 + d)%nat = 0) ->
    vm_wingbox nodes disp e E G tssf Qz J A_enc tsp htop hbot hfront hrear s = 0.
Proof. intros; eapply vm_wingbox_translation_zero; eassumption. Qed.
Print Assumptions C15_vonmises_wingbox_translation_zero.

(* element not parallel to the global x axis (the documented restriction of the local frame) *)
Theorem C15_vonmises_wingbox_rotation_zero :
  forall nodes disp e E G tssf Qz J A_enc tsp htop hbot hfront hrear (th x0 : nat -> R) s,
    let dP := vsub (P1 nodes e) (P0 nodes e) in
    0 < dot dP dP -> 0 < dP 1%nat * dP 1%nat + dP 2%nat * dP 2%nat ->
    (forall n d, (d < 3)%nat -> disp n d = cross th (vsub (nodes n) x0) d) ->
    (forall n d, (d < 3)%nat -> disp n (3 + d)%nat = th d) ->
    vm_wingbox nodes disp e E G tssf Qz J A_enc tsp htop hbot hfront hrear s = 0.
Proof. intros; eapply vm_wingbox_rotation_zero; eassumption. Qed.
Print Assumptions C15_vonmises_wingbox_rotation_zero.

(* homogeneity in the displacement field *)
Theorem C15_vonmises_tube_homogeneous :
  forall nodes disp e c E G radius s, 0 <= c ->
    vm_tube nodes (fun n d => c * disp n d) e E G radius s = c * vm_tube nodes disp e E G radius s.
Proof. intros; apply vm_tube_scale; assumption. Qed.
Print Assumptions C15_vonmises_tube_homogeneous.

(* reversing the displacement field swaps the two recovery points of the tube *)
Theorem C15_vonmises_tube_reversal :
  forall E G r L du drx dry drz,
    tube_vm_local E G r L (- du) (- drx) (- dry) (- drz) 0 = tube_vm_local E G r L du drx dry drz 1 /\
    tube_vm_local E G r L (- du) (- drx) (- dry) (- drz) 1 = tube_vm_local E G r L du drx dry drz 0.
Proof. exact tube_vm_local_neg. Qed.
Print Assumptions C15_vonmises_tube_reversal.

Theorem C15_vonmises_wingbox_homogeneous :
  forall nodes disp e c E G tssf Qz J A_enc tsp htop hbot hfront hrear s,
    vm_wingbox nodes (fun n d => c * disp n d) e E G tssf Qz J A_enc tsp htop hbot hfront hrear s
    = Rabs c * vm_wingbox nodes disp e E G tssf Qz J A_enc tsp htop hbot hfront hrear s.
Proof. intros; apply vm_wingbox_scale. Qed.
Print Assumptions C15_vonmises_wingbox_homogeneous.

(* closed forms of the tube element (local strain measures du, d(rx), d(ry), d(rz)) *)
Theorem C15_tube_pure_axial :
  forall E G r L du s, tube_vm_local E G r L du 0 0 0 s = Rabs (E * du / L).
Proof. exact tube_pure_axial. Qed.
Print Assumptions C15_tube_pure_axial.

Theorem C15_tube_pure_torsion :
  forall E G r L drx s, tube_vm_local E G r L 0 drx 0 0 s = sqrt 3 * Rabs (G * r * drx / L).
Proof. exact tube_pure_torsion. Qed.
Print Assumptions C15_tube_pure_torsion.

Theorem C15_tube_pure_bending :
  forall E G r L dry drz s, 0 <= E * r / L ->
    tube_vm_local E G r L 0 0 dry drz s = E * r / L * sqrt (dry * dry + drz * drz).
Proof. exact tube_pure_bending. Qed.
Print Assumptions C15_tube_pure_bending.

(* non-vacuity: a concrete element meets the frame hypotheses *)
Example C15_frame_hypotheses_satisfiable :
  let nodes := fun n d => match n, d with 0%nat, _ => 0 | _, 1%nat => 1 | _, _ => 0 end in
  let dP := vsub (P1 nodes 0%nat) (P0 nodes 0%nat) in
  0 < dot dP dP /\ 0 < dP 1%nat * dP 1%nat + dP 2%nat * dP 2%nat.
Proof. unfold P1, P0, vsub, dot; simpl; split; lra. Qed.
