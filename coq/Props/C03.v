(* C03 — outputs and derivatives depend only on the current point, not on history.
   Property theorems only; the model is Model/Writes.v (the order of writes into storage that persists between
   calls), the proofs are in Real/WritesProofs.v, the programs are generated from the source on every run
   (Generated/WriteProgs.v, one per component class of the package). *)
From Coq Require Import List Arith Bool.
From OAS Require Import Writes WritesProofs WriteProgs.
Import ListNotations.

(* For ANY program that passes the analysis [disciplined], any value type, any number of earlier calls made under
   any inputs (environments that share the options: keys, regions, loop counts, option-dependent conditions, but
   differ arbitrarily in the written values and in the input-dependent conditions) and any freshly allocated
   storage: the storage after the history followed by a call equals the storage after that call alone. *)
Theorem C03_disciplined_program_is_history_independent :
  forall (V : Type) (I : info) (dc : nat -> bool) (p : stmt) (Es : list (env V)) (E : env V) (fresh : store V),
    disciplined I p = true -> wf dc p = true -> goodcall V I E p ->
    (forall E', In E' Es -> goodcall V I E' p /\ static_eq V dc E' E) ->
    run E p (history V p Es fresh) = run E p fresh.
Proof. exact history_independent. Qed.
Print Assumptions C03_disciplined_program_is_history_independent.

(* within one call, the content of every touched cell is independent of what the storage held before *)
Theorem C03_touched_cells_do_not_depend_on_previous_content :
  forall (V : Type) (I : info) (E : env V), envok V I E -> forall (s : stmt) A indyn A' ctx s1 s2 T,
    an I A indyn s = Some A' -> assumed V E s ctx T -> Aok V E A ctx T -> agreeT V T s1 s2 ->
    agreeT V (tex V E s ctx T) (fst (exec E s ctx s1 T)) (fst (exec E s ctx s2 T)) /\ Aok V E A' ctx (tex V E s ctx T).
Proof. exact sound_A. Qed.
Print Assumptions C03_touched_cells_do_not_depend_on_previous_content.

(* the simplest violation, "x += v" with no assignment first, IS history dependent *)
Theorem C03_accumulation_without_assignment_refuted :
  disciplined (mkInfo (fun _ _ => true) (fun _ _ => true) []) accumulate_only = false /\
  exists (E : env nat) (fresh : store nat),
    run E accumulate_only (history nat accumulate_only [E] fresh) 1 0 <> run E accumulate_only fresh 1 0.
Proof. exact accumulate_refuted. Qed.
Print Assumptions C03_accumulation_without_assignment_refuted.

(* every component class of the current source (compute -> compute_partials / linearize round) passes the analysis *)
Definition component_ok (c : info * stmt * (nat -> bool)) : bool :=
  disciplined (fst (fst c)) (snd (fst c)) && wf (snd c) (snd (fst c)).
Theorem C03_every_component_of_the_source_is_disciplined :
  forallb component_ok checked_components = true /\ length checked_components + length expected_undisciplined = component_names_count.
Proof. split; vm_compute; reflexivity. Qed.
Print Assumptions C03_every_component_of_the_source_is_disciplined.

(* the listed exceptions do violate it (recorded findings / by-design file counter): if one of them is repaired,
   this statement stops holding and the list must be updated *)
Theorem C03_listed_exceptions_violate_the_discipline :
  forallb (fun c => negb (disciplined (fst (fst c)) (snd (fst c)))) expected_undisciplined = true.
Proof. vm_compute; reflexivity. Qed.
Print Assumptions C03_listed_exceptions_violate_the_discipline.
