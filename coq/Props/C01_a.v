(* C01 - analytic component derivatives equal the true derivatives.  Property theorems only (statements printed by Coq from the libraries Real/*Deriv.v).  DR g t0 p  :=  g t0 = fst p /\ is_derive g t0 (snd p);  every theorem says: along ANY differentiable curve of the inputs, the dual-number evaluation of the component model gives the value and the derivative - hence every partial derivative (C01_dual_number_tangent_is_the_partial_derivative) and, by composition, every chain of components (part 1) *)
From Coq Require Import Reals ZArith Lra Lia Arith Bool List String.
From Coquelicot Require Import Coquelicot.
From OAS Require Import Scalar Rops Sums Deriv Dual DualProofs Drag DragDeriv Stress StressDeriv StressProofs Transfer TransferDeriv Loads LoadsDeriv Functionals FunctionalsDeriv Aero AeroDeriv PG PGDeriv Beam BeamTables BeamDeriv Geom GeomDeriv Misc MiscDeriv MultiSec MultiSecDeriv Wingbox WingboxDeriv Small SmallDeriv Mphys MphysDeriv.
Open Scope R_scope.

(* the meaning of every statement below: the tangent part of the dual-number evaluation is the coordinate partial derivative *)
Theorem C01_dual_number_tangent_is_the_partial_derivative :
  forall (f : (nat -> R) -> R) (fd : (nat -> dual R) -> dual R) (x : nat -> R) (c : nat),
  DR (fun t : R => f (upd1 x c t)) (x c) (fd (seed1 x c)) ->
  is_derive (fun t : R_AbsRing => f (upd1 x c t)) (x c) (snd (fd (seed1 x c))).
Proof. exact DR_partial. Qed.
Print Assumptions C01_dual_number_tangent_is_the_partial_derivative.

Theorem C01_seeded_coordinate :
  forall (x : nat -> R) (c i : nat), DR (fun t : R => upd1 x c t i) (x c) (seed1 x c i).
Proof. exact DR_upd1. Qed.
Print Assumptions C01_seeded_coordinate.

(* aerodynamics/viscous_drag.py (k, cmax are options of the surface) *)
Theorem C01_ViscousDrag :
  forall (np : nat) (sym : bool) (k cmax : R) (re M S_ref : R -> R) (widths lsp lengths toc : R -> nat -> R)
    (t0 : R) (re' M' S' : dual R) (widths' lsp' lengths' toc' : nat -> dual R),
  DR re t0 re' ->
  DR M t0 M' ->
  DR S_ref t0 S' ->
  (forall j : nat, DR (fun t : R => widths t j) t0 (widths' j)) ->
  (forall j : nat, DR (fun t : R => lsp t j) t0 (lsp' j)) ->
  (forall j : nat, DR (fun t : R => lengths t j) t0 (lengths' j)) ->
  (forall j : nat, DR (fun t : R => toc t j) t0 (toc' j)) ->
  0 <= k ->
  cmax <> 0 ->
  0 < M t0 ->
  S_ref t0 <> 0 ->
  (forall j : nat, (j < np)%nat -> lsp t0 j <> 0) ->
  (forall j : nat, (j < np)%nat -> 0 < widths t0 j / lsp t0 j) ->
  (forall j : nat, (j < np)%nat -> 1 < re t0 * vd_chord (lengths t0) j) ->
  (forall j : nat, (j < np)%nat -> 0 < k -> 1 < re t0 * vd_chord (lengths t0) j * k) ->
  forall wv : bool,
  DR (fun t : R => viscous_CDv np sym k cmax (re t) (M t) (S_ref t) (widths t) (lsp t) (lengths t) (toc t) wv)
    t0 (viscous_CDv np sym (dinj k) (dinj cmax) re' M' S' widths' lsp' lengths' toc' wv).
Proof. exact viscous_CDv_DR. Qed.
Print Assumptions C01_ViscousDrag.

(* aerodynamics/wave_drag.py, off the onset M = Mcrit *)
Theorem C01_WaveDrag :
  forall (np : nat) (sym sd : bool) (M CL : R -> R) (widths lsp chords toc : R -> nat -> R) 
    (t0 : R) (M' CL' : dual R) (widths' lsp' chords' toc' : nat -> dual R),
  DR M t0 M' ->
  DR CL t0 CL' ->
  (forall j : nat, DR (fun t : R => widths t j) t0 (widths' j)) ->
  (forall j : nat, DR (fun t : R => lsp t j) t0 (lsp' j)) ->
  (forall j : nat, DR (fun t : R => chords t j) t0 (chords' j)) ->
  (forall j : nat, DR (fun t : R => toc t j) t0 (toc' j)) ->
  (forall j : nat, (j < np)%nat -> lsp t0 j <> 0) ->
  wd_sumA np (widths t0) (chords t0) <> 0 ->
  wd_avg_cos np (widths t0) (lsp t0) (chords t0) <> 0 ->
  wd_Mcrit np (CL t0) (widths t0) (lsp t0) (chords t0) (toc t0) <> M t0 ->
  forall ww : bool,
  DR (fun t : R => wave_CDw np sym (M t) (CL t) (widths t) (lsp t) (chords t) (toc t) sd ww) t0
    (wave_CDw np sym M' CL' widths' lsp' chords' toc' sd ww).
Proof. exact wave_CDw_DR. Qed.
Print Assumptions C01_WaveDrag.

Theorem C01_TotalDrag :
  forall (CDi CDv CDw CD0 : R -> R) (t0 : R) (a b c d : dual R),
  DR CDi t0 a ->
  DR CDv t0 b ->
  DR CDw t0 c ->
  DR CD0 t0 d -> DR (fun t : R => total_drag (CDi t) (CDv t) (CDw t) (CD0 t)) t0 (total_drag a b c d).
Proof. exact total_drag_DR. Qed.
Print Assumptions C01_TotalDrag.

(* structures/vonmises_tube.py, off zero bending rotation / zero stress *)
Theorem C01_VonMisesTube :
  forall (nodes disp : R -> nat -> nat -> R) (radius : R -> nat -> R) (E G : R -> R) 
    (t0 : R) (nodes' disp' : nat -> nat -> dual R) (radius' : nat -> dual R) (E' G' : dual R) 
    (e : nat),
  (forall i d : nat, DR (fun t : R => nodes t i d) t0 (nodes' i d)) ->
  (forall i d : nat, DR (fun t : R => disp t i d) t0 (disp' i d)) ->
  (forall i : nat, DR (fun t : R => radius t i) t0 (radius' i)) ->
  DR E t0 E' ->
  DR G t0 G' ->
  StressDeriv.nz3 (vsub (P1 (nodes t0) e) (P0 (nodes t0) e)) ->
  StressDeriv.nz3 (cross (loc_x (P0 (nodes t0) e) (P1 (nodes t0) e)) e_x) ->
  StressDeriv.nz3
    (cross (loc_x (P0 (nodes t0) e) (P1 (nodes t0) e)) (loc_y (P0 (nodes t0) e) (P1 (nodes t0) e))) ->
  forall s : nat,
  let n := nodes t0 in
  let d := disp t0 in
  0 < osq (r1 d e (yl n e) - r0 d e (yl n e)) + osq (r1 d e (zl n e) - r0 d e (zl n e)) ->
  0 < vm_tube n d e (E t0) (G t0) (radius t0) s ->
  DR (fun t : R => vm_tube (nodes t) (disp t) e (E t) (G t) (radius t) s) t0
    (vm_tube nodes' disp' e E' G' radius' s).
Proof. exact vm_tube_DR. Qed.
Print Assumptions C01_VonMisesTube.

(* structures/vonmises_wingbox.py (partials declared by complex step in the code) *)
Theorem C01_VonMisesWingbox :
  forall (nodes disp : R -> nat -> nat -> R) (E G tssf : R -> R)
    (Qz J A_enc tsp htop hbot hfront hrear : R -> nat -> R) (t0 : R) (nodes' disp' : nat -> nat -> dual R)
    (E' G' tssf' : dual R) (Qz' J' A_enc' tsp' htop' hbot' hfront' hrear' : nat -> dual R) 
    (e : nat),
  (forall i d : nat, DR (fun t : R => nodes t i d) t0 (nodes' i d)) ->
  (forall i d : nat, DR (fun t : R => disp t i d) t0 (disp' i d)) ->
  DR E t0 E' ->
  DR G t0 G' ->
  DR tssf t0 tssf' ->
  (forall i : nat, DR (fun t : R => Qz t i) t0 (Qz' i)) ->
  (forall i : nat, DR (fun t : R => J t i) t0 (J' i)) ->
  (forall i : nat, DR (fun t : R => A_enc t i) t0 (A_enc' i)) ->
  (forall i : nat, DR (fun t : R => tsp t i) t0 (tsp' i)) ->
  (forall i : nat, DR (fun t : R => htop t i) t0 (htop' i)) ->
  (forall i : nat, DR (fun t : R => hbot t i) t0 (hbot' i)) ->
  (forall i : nat, DR (fun t : R => hfront t i) t0 (hfront' i)) ->
  (forall i : nat, DR (fun t : R => hrear t i) t0 (hrear' i)) ->
  StressDeriv.nz3 (vsub (P1 (nodes t0) e) (P0 (nodes t0) e)) ->
  StressDeriv.nz3 (cross (loc_x (P0 (nodes t0) e) (P1 (nodes t0) e)) e_x) ->
  StressDeriv.nz3
    (cross (loc_x (P0 (nodes t0) e) (P1 (nodes t0) e)) (loc_y (P0 (nodes t0) e) (P1 (nodes t0) e))) ->
  tsp t0 e <> 0 ->
  A_enc t0 e <> 0 ->
  tssf t0 <> 0 ->
  forall s : nat,
  0 <
  vm_wingbox (nodes t0) (disp t0) e (E t0) (G t0) (tssf t0) (Qz t0) (J t0) (A_enc t0) 
    (tsp t0) (htop t0) (hbot t0) (hfront t0) (hrear t0) s * (if (s =? 0) || (3 <=? s) then tssf t0 else 1) ->
  DR
    (fun t : R =>
     vm_wingbox (nodes t) (disp t) e (E t) (G t) (tssf t) (Qz t) (J t) (A_enc t) (tsp t) 
       (htop t) (hbot t) (hfront t) (hrear t) s) t0
    (vm_wingbox nodes' disp' e E' G' tssf' Qz' J' A_enc' tsp' htop' hbot' hfront' hrear' s).
Proof. exact vm_wingbox_DR. Qed.
Print Assumptions C01_VonMisesWingbox.

(* structures/failure_exact.py; FailureKS is C15_ks_reported_derivative *)
Theorem C01_FailureExact :
  forall (S : R -> R) (V : R -> nat -> R) (t0 : R) (s : dual R) (v : nat -> dual R) (i : nat),
  DR S t0 s ->
  (forall k : nat, DR (fun t : R => V t k) t0 (v k)) ->
  S t0 <> 0 -> DR (fun t : R => failure_exact (S t) (V t) i) t0 (failure_exact s v i).
Proof. exact failure_exact_DR. Qed.
Print Assumptions C01_FailureExact.

Theorem C01_NonIntersectingThickness :
  forall (Th Rd : R -> nat -> R) (t0 : R) (th rd : nat -> dual R) (i : nat),
  (forall k : nat, DR (fun t : R => Th t k) t0 (th k)) ->
  (forall k : nat, DR (fun t : R => Rd t k) t0 (rd k)) ->
  DR (fun t : R => thickness_intersects (Th t) (Rd t) i) t0 (thickness_intersects th rd i).
Proof. exact thickness_intersects_DR. Qed.
Print Assumptions C01_NonIntersectingThickness.

Theorem C01_SectionPropertiesTube :
  forall (Rd Th : R -> R) (t0 : R) (rd th : dual R),
  DR Rd t0 rd ->
  DR Th t0 th ->
  DR (fun t : R => tube_A (Rd t) (Th t)) t0 (tube_A rd th) /\
  DR (fun t : R => tube_Iy (Rd t) (Th t)) t0 (tube_Iy rd th) /\
  DR (fun t : R => tube_J (Rd t) (Th t)) t0 (tube_J rd th).
Proof. exact tube_section_DR. Qed.
Print Assumptions C01_SectionPropertiesTube.

Theorem C01_ComputeNodes :
  forall (npx : nat) (W : R -> R) (M : R -> nat -> nat -> nat -> R) (t0 : R) (w : dual R)
    (m : nat -> nat -> nat -> dual R) (j d : nat),
  DR W t0 w -> DR3 M t0 m -> DR (fun t : R => nodes npx (W t) (M t) j d) t0 (nodes npx w m j d).
Proof. exact nodes_DR. Qed.
Print Assumptions C01_ComputeNodes.

(* transfer/load_transfer.py *)
Theorem C01_LoadTransfer :
  forall (npx npy : nat) (W1 W2 : R -> R) (M F : R -> nat -> nat -> nat -> R) (t0 : R) 
    (w1 w2 : dual R) (m f : nat -> nat -> nat -> dual R),
  DR W1 t0 w1 ->
  DR W2 t0 w2 ->
  DR3 M t0 m ->
  DR3 F t0 f ->
  forall j c : nat,
  DR (fun t : R => lt_loads npx npy (W1 t) (W2 t) (M t) (F t) j c) t0 (lt_loads npx npy w1 w2 m f j c).
Proof. exact lt_loads_DR. Qed.
Print Assumptions C01_LoadTransfer.

