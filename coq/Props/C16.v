(* C16 — mass, centre of gravity and inertial / fuel / thrust loads are conserved.
   Property theorems only; proofs in Real/LoadsProofs.v. *)
From Coq Require Import Reals Arith.
From OAS Require Import Scalar Rops Sums Loads Constants LoadsProofs.
Open Scope R_scope.

Theorem C16_mass_formula :
  forall nodes ne sym mrho wwr A,
    structural_mass nodes ne sym mrho wwr A
    = (if sym then 2 else 1) * (mrho * wwr * rsum ne (fun e => elen nodes e * A e)).
Proof. exact mass_formula. Qed.
Print Assumptions C16_mass_formula.

(* fed with Weight's own outputs, the reported cg is the mass-weighted centroid of the element
   mid points (y = 0 for a symmetric surface) *)
Theorem C16_cg_is_centroid :
  forall nodes ne sym mrho wwr A d,
    let em := element_mass nodes mrho wwr A in
    let M := structural_mass nodes ne sym mrho wwr A in
    rsum ne em <> 0 ->
    cg_location nodes ne sym M em d
    = if (sym && (d =? 1)%nat)%bool then 0
      else rsum ne (fun e => emid nodes e d * em e) / rsum ne em.
Proof. exact cg_is_centroid. Qed.
Print Assumptions C16_cg_is_centroid.

(* structural-weight loads: total force = - g * load_factor * sum of element masses, along z only *)
Theorem C16_struct_weight_total_force :
  forall nodes ne g lf em,
    rsum (S ne) (fun j => struct_weight_loads nodes ne g lf em j 2) = - (g * lf * rsum ne em) /\
    (forall j c, (c < 2)%nat -> struct_weight_loads nodes ne g lf em j c = 0).
Proof. intros; split; [apply struct_weight_total_force | intros; apply dist_loads_force_xy; assumption]. Qed.
Print Assumptions C16_struct_weight_total_force.

(* total moment about the origin of ANY distributed vertical load with paired end moments
   (structural weight and fuel weight are instances) = moment of the element weights at the element mid points *)
Theorem C16_distributed_loads_total_moment :
  forall nodes ne (w zm : nat -> R) d, (d < 3)%nat ->
    rsum (S ne) (fun j =>
        cross (nodes j) (fun c => dist_loads nodes ne w zm j c) d + dist_loads nodes ne w zm j (3 + d))
    = rsum ne (fun e => cross (emid nodes e) (mk3 0 0 (- w e)) d).
Proof. exact dist_loads_total_moment. Qed.
Print Assumptions C16_distributed_loads_total_moment.

(* fuel loads: total force = -(fuel + reserve) g n, the half-span share when symmetric *)
Theorem C16_fuel_total_force :
  forall nodes ne sym g lf fm res vols, rsum ne vols <> 0 ->
    rsum (S ne) (fun j => fuel_weight_loads nodes ne sym g lf fm res vols j 2)
    = - ((if sym then 1 / 2 else 1) * ((fm + res) * g * lf)).
Proof. exact fuel_total_force. Qed.
Print Assumptions C16_fuel_total_force.

(* point masses and thrusts: the inverse-distance weights are non-negative and sum to one ... *)
Theorem C16_point_mass_weights :
  forall nodes ne loc,
    rsum (S ne) (nodal_weighting nodes ne loc) = 1 /\ forall j, 0 <= nodal_weighting nodes ne loc j.
Proof. intros; split; [apply weights_sum_one | apply weights_nonneg]. Qed.
Print Assumptions C16_point_mass_weights.

(* ... so each load has total force dir * s and total moment loc x (dir * s), for any direction *)
Theorem C16_point_load_total_force :
  forall nodes ne loc dir s c, (c < 3)%nat ->
    rsum (S ne) (fun j => pm_loads1 nodes ne loc dir s j c) = dir c * s.
Proof. exact pm_total_force. Qed.
Print Assumptions C16_point_load_total_force.

Theorem C16_point_load_total_moment :
  forall nodes ne loc dir s d, (d < 3)%nat ->
    rsum (S ne) (fun j =>
        cross (nodes j) (fun c => pm_loads1 nodes ne loc dir s j c) d + pm_loads1 nodes ne loc dir s j (3 + d))
    = cross loc (fun c => dir c * s) d.
Proof. exact pm_total_moment. Qed.
Print Assumptions C16_point_load_total_moment.

(* the directions and magnitudes the code uses: weight down with g n m, thrust forward with T *)
Theorem C16_point_mass_and_thrust_directions :
  (@down R Rops 0%nat = 0 /\ @down R Rops 1%nat = 0 /\ @down R Rops 2%nat = -1) /\
  (@fwd R Rops 0%nat = -1 /\ @fwd R Rops 1%nat = 0 /\ @fwd R Rops 2%nat = 0) /\
  0 < @gen_grav_constant R Rops /\
  @gen_pm_eps R Rops = pm_eps /\ @gen_pm_power R Rops = 10 /\
  @gen_th_eps R Rops = pm_eps /\ @gen_th_power R Rops = 10.
Proof. exact (conj (conj eq_refl (conj eq_refl eq_refl)) (conj (conj eq_refl (conj eq_refl eq_refl)) (conj gen_grav_pos gen_pm_consts))). Qed.
Print Assumptions C16_point_mass_and_thrust_directions.

Theorem C16_total_loads_is_sum :
  forall sw fl pm loads swl fwl lpm lth j c,
    total_loads sw fl pm loads swl fwl lpm lth j c
    = loads j c + (if sw then swl j c else 0) + (if fl then fwl j c else 0)
      + (if pm then lpm j c + lth j c else 0).
Proof. exact total_loads_is_sum. Qed.
Print Assumptions C16_total_loads_is_sum.

Theorem C16_fuel_vols_def :
  forall nodes A_int e, fuel_vols nodes A_int e = elen nodes e * A_int e.
Proof. reflexivity. Qed.
Print Assumptions C16_fuel_vols_def.

Theorem C16_fuel_vol_delta_def :
  forall ne sym fb res rho vols,
    fuel_vol_delta ne sym fb res rho vols
    = rsum ne vols - (if sym then (fb + res) / 2 else fb + res) / rho.
Proof. exact fuel_vol_delta_def. Qed.
Print Assumptions C16_fuel_vol_delta_def.

(* the areas the mass and the fuel volume are built from, for a rectangular wing-box section (SectionPropertiesWingbox):
   material area = two skins over the full width + two spars between the skins; internal area = width times the height
   between the skins minus both spars *)
From OAS Require Import Wingbox WingboxProofs.
Theorem C16_wingbox_material_area_of_a_box :
  forall x0 x1 yu yl toc0 chord spar skin toc sw : R, chord <> 0 -> toc0 <> 0 ->
    let bx := fun i : nat => match i with O => x0 | _ => x1 end in
    let w := chord * (x1 - x0) in let h := chord * (toc / toc0 * sw / chord) * (yu - yl) in
    wb_A 1 bx (fun _ => yu) bx (fun _ => yl) toc0 chord spar skin toc sw 0 = 2 * skin * w + 2 * (h - 2 * skin) * spar.
Proof. exact box_area. Qed.
Print Assumptions C16_wingbox_material_area_of_a_box.

Theorem C16_wingbox_internal_area_of_a_box :
  forall x0 x1 yu yl toc0 chord spar skin toc sw : R, chord <> 0 -> toc0 <> 0 ->
    let bx := fun i : nat => match i with O => x0 | _ => x1 end in
    let w := chord * (x1 - x0) in let h := chord * (toc / toc0 * sw / chord) * (yu - yl) in
    wb_A_int 1 bx (fun _ => yu) bx (fun _ => yl) toc0 chord spar skin toc sw = w * (h - 2 * skin) - 2 * h * spar.
Proof. exact box_internal_area. Qed.
Print Assumptions C16_wingbox_internal_area_of_a_box.
