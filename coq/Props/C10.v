(* C10 — structural displacements satisfy beam equilibrium with a clamped root.
   Property theorems only; proofs in Real/BeamProofs.v; textbook element in Spec/FrameElement.v;
   coefficient tables, DOF permutation, clamp weight and load threshold regenerated from the source. *)
From Coq Require Import Reals Arith List Bool.
From OAS Require Import Scalar Rops Sums Stress Vec3 BeamTables Beam FrameElement BeamProofs.
Import ListNotations.
Open Scope R_scope.

(* the 12x12 element matrix the code builds (blocks from the generated tables, then the generated
   DOF permutation) is the textbook 3-D Euler-Bernoulli frame element, all 144 entries *)
Theorem C10_element_is_textbook_frame_element :
  forall E G A J Iy Iz L i j, L <> 0 -> (i < 12)%nat -> (j < 12)%nat ->
    permuted (local_stiff E G A J Iy Iz L) i j = frame_element E G A J Iy Iz L i j.
Proof. exact permuted_local_stiff_eq_textbook. Qed.
Print Assumptions C10_element_is_textbook_frame_element.

Theorem C10_dof_permutation_is_a_permutation :
  forallb (fun l => Nat.eqb (inv_col (col_of l)) l) (seq 0 12) = true /\
  forallb (fun j => Nat.eqb (col_of (inv_col j)) j) (seq 0 12) = true /\
  forallb (fun l => Nat.ltb (col_of l) 12) (seq 0 12) = true.
Proof. exact perm_is_permutation. Qed.
Print Assumptions C10_dof_permutation_is_a_permutation.

(* local axes: orthonormal for every element of non-zero length not parallel to the global x axis *)
Theorem C10_direction_cosines_orthonormal :
  forall (P0 P1 : nat -> R) r s,
    let dP := vsub P1 P0 in
    0 < dot dP dP -> 0 < dP 1%nat * dP 1%nat + dP 2%nat * dP 2%nat -> (r < 3)%nat -> (s < 3)%nat ->
    dot (tr_row P0 P1 r) (tr_row P0 P1 s) = if (r =? s)%nat then 1 else 0.
Proof. intros; apply tr_row_orthonormal; assumption. Qed.
Print Assumptions C10_direction_cosines_orthonormal.

(* symmetry survives the congruence T^T K T, the direct-stiffness assembly and the clamping rows *)
Theorem C10_stiffness_symmetric :
  (forall E G A J Iy Iz L i j, L <> 0 -> (i < 12)%nat -> (j < 12)%nat ->
      permuted (local_stiff E G A J Iy Iz L) i j = permuted (local_stiff E G A J Iy Iz L) j i) /\
  (forall (Tm Kp : nat -> nat -> R) j k,
      (forall l m, (l < 12)%nat -> (m < 12)%nat -> Kp l m = Kp m l) -> transformed Tm Kp j k = transformed Tm Kp k j) /\
  (forall ne root (kloc : nat -> nat -> nat -> R) p q,
      (forall e i j, (e < ne)%nat -> kloc e i j = kloc e j i) -> K_aug ne root kloc p q = K_aug ne root kloc q p).
Proof.
  split; [exact permuted_local_stiff_symmetric|]. split; [exact transformed_symmetric | exact K_aug_symmetric].
Qed.
Print Assumptions C10_stiffness_symmetric.

(* a solution of the augmented system has a fully clamped root node (six zero DOFs) ... *)
Theorem C10_root_is_clamped :
  forall ne root (kloc : nat -> nat -> nat -> R) (forces u : nat -> R),
    (root <= ne)%nat ->
    (forall p, (p < 6 * S ne + 6)%nat -> fem_residual ne root kloc forces u p = 0) ->
    (forall r, (r < 6)%nat -> forces (6 * S ne + r)%nat = 0) ->
    @gen_clamp_weight R Rops <> 0 ->
    forall r, (r < 6)%nat -> u (6 * root + r)%nat = 0.
Proof. exact root_is_clamped. Qed.
Print Assumptions C10_root_is_clamped.

(* ... and every other DOF is in equilibrium under the direct-stiffness assembly: (K u)_p = f_p *)
Theorem C10_free_dofs_in_equilibrium :
  forall ne root (kloc : nat -> nat -> nat -> R) (forces u : nat -> R),
    (root <= ne)%nat ->
    (forall p, (p < 6 * S ne + 6)%nat -> fem_residual ne root kloc forces u p = 0) ->
    forall p, (p < 6 * S ne)%nat -> (forall r, (r < 6)%nat -> p <> (6 * root + r)%nat) ->
      rsum (6 * S ne) (fun q => assembled ne kloc (p / 6) (p mod 6) (q / 6) (q mod 6) * u q) = forces p.
Proof. exact free_dofs_in_equilibrium. Qed.
Print Assumptions C10_free_dofs_in_equilibrium.

(* the root node: wing centre for full span, symmetry-plane (last) node for half span *)
Theorem C10_root_index :
  forall ne, root_index true ne = ne /\ root_index false ne = (ne / 2)%nat.
Proof. intros; split; reflexivity. Qed.
Print Assumptions C10_root_index.

(* linear in the loads, reciprocal (Maxwell-Betti) *)
Theorem C10_response_linear_and_reciprocal :
  forall n (Km : nat -> nat -> R),
    (forall (u1 u2 f1 f2 : nat -> R) a b,
        (forall p, (p < n)%nat -> rsum n (fun q => Km p q * u1 q) = f1 p) ->
        (forall p, (p < n)%nat -> rsum n (fun q => Km p q * u2 q) = f2 p) ->
        forall p, (p < n)%nat -> rsum n (fun q => Km p q * (a * u1 q + b * u2 q)) = a * f1 p + b * f2 p) /\
    ((forall p q, (p < n)%nat -> (q < n)%nat -> Km p q = Km q p) ->
     forall (u1 u2 f1 f2 : nat -> R),
        (forall p, (p < n)%nat -> rsum n (fun q => Km p q * u1 q) = f1 p) ->
        (forall p, (p < n)%nat -> rsum n (fun q => Km p q * u2 q) = f2 p) ->
        rsum n (fun p => u2 p * f1 p) = rsum n (fun p => u1 p * f2 p)).
Proof. intros; split; [intros; eapply response_linear; eassumption | intros; eapply maxwell_betti; eassumption]. Qed.
Print Assumptions C10_response_linear_and_reciprocal.

(* the documented exemption: loads below the generated threshold are zeroed, above it they pass unchanged *)
Theorem C10_load_threshold :
  forall ny (loads : nat -> nat -> R) p,
    ((p < 6 * ny)%nat -> gen_rhs_threshold <= Rabs (loads (p / 6)%nat (p mod 6)%nat) ->
        create_rhs ny loads p = loads (p / 6)%nat (p mod 6)%nat) /\
    (Rabs (loads (p / 6)%nat (p mod 6)%nat) < gen_rhs_threshold -> create_rhs ny loads p = 0).
Proof. intros; split; [apply create_rhs_above | apply create_rhs_below]. Qed.
Print Assumptions C10_load_threshold.

(* closed-form cantilever (one element, root clamped): tip force P gives P L^3 / 3 E I and P L^2 / 2 E I,
   in both bending planes *)
Theorem C10_cantilever_tip_load_exact :
  forall E G A J Iy Iz L P, L <> 0 -> E <> 0 -> Iy <> 0 -> Iz <> 0 ->
    (let w1 := P * (L * L * L) / (3 * E * Iy) in let ry1 := - (P * (L * L) / (2 * E * Iy)) in
     frame_element E G A J Iy Iz L 8 8 * w1 + frame_element E G A J Iy Iz L 8 10 * ry1 = P /\
     frame_element E G A J Iy Iz L 10 8 * w1 + frame_element E G A J Iy Iz L 10 10 * ry1 = 0) /\
    (let v1 := P * (L * L * L) / (3 * E * Iz) in let rz1 := P * (L * L) / (2 * E * Iz) in
     frame_element E G A J Iy Iz L 7 7 * v1 + frame_element E G A J Iy Iz L 7 11 * rz1 = P /\
     frame_element E G A J Iy Iz L 11 7 * v1 + frame_element E G A J Iy Iz L 11 11 * rz1 = 0).
Proof. intros; split; [apply cantilever_tip_load_exact | apply cantilever_tip_load_exact_y]; assumption. Qed.
Print Assumptions C10_cantilever_tip_load_exact.

(* nodal exactness for ANY number of collinear elements of any lengths: the closed-form deflection w and rotation (- w')
   of a cantilever with a tip force P, evaluated at the nodes x 0 .. x ne, satisfy row (6 a + r) of the assembled system
   for every node a other than the clamped one: the row gives P at the loaded tip's deflection DOF and 0 elsewhere.
   rl = false: clamped at node 0, loaded at node ne; rl = true: clamped at node ne, loaded at node 0 (symmetric half wing) *)
From OAS Require Import BeamCantilever.
Theorem C10_cantilever_nodal_exact_any_number_of_elements :
  forall (ne : nat) (x : nat -> R) (E G A J Iy Iz P : R), E <> 0 -> Iy <> 0 ->
    (forall e, (e < ne)%nat -> x (S e) - x e <> 0) ->
    forall (rl : bool) (a r : nat), (a <= ne)%nat -> (r < 6)%nat -> a <> (if rl then ne else 0%nat) ->
    rsum (6 * S ne) (fun q => assembled ne (kl x E G A J Iy Iz) a r (q / 6) (q mod 6) * cu ne x E Iy P rl q)
    = if ((a =? (if rl then 0 else ne))%nat && (r =? 2)%nat)%bool then P else 0.
Proof. exact cantilever_nodal_exact. Qed.
Print Assumptions C10_cantilever_nodal_exact_any_number_of_elements.

Theorem C10_cantilever_root_fixed :
  forall (ne : nat) (x : nat -> R) (E Iy P : R), E <> 0 -> Iy <> 0 ->
    forall (rl : bool) (r : nat), (r < 6)%nat -> cu ne x E Iy P rl (6 * (if rl then ne else 0) + r) = 0.
Proof. exact cantilever_root_fixed. Qed.
Print Assumptions C10_cantilever_root_fixed.
