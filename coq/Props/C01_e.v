(* C01 - analytic component derivatives equal the true derivatives.  Property theorems only (statements printed by Coq from the libraries Real/*Deriv.v).  DR g t0 p  :=  g t0 = fst p /\ is_derive g t0 (snd p);  every theorem says: along ANY differentiable curve of the inputs, the dual-number evaluation of the component model gives the value and the derivative - hence every partial derivative (C01_dual_number_tangent_is_the_partial_derivative) and, by composition, every chain of components (part 5) *)
From Coq Require Import Reals ZArith Lra Lia Arith Bool List String.
From Coquelicot Require Import Coquelicot.
From OAS Require Import Scalar Rops Sums Deriv Dual DualProofs Drag DragDeriv Stress StressDeriv StressProofs Transfer TransferDeriv Loads LoadsDeriv Functionals FunctionalsDeriv Aero AeroDeriv PG PGDeriv Beam BeamTables BeamDeriv Geom GeomDeriv Misc MiscDeriv MultiSec MultiSecDeriv Wingbox WingboxDeriv Small SmallDeriv Mphys MphysDeriv.
Open Scope R_scope.

Theorem C01_VLMGeometry_chords :
  forall (npx : nat) (M : R -> nat -> nat -> nat -> R) (t0 : R) (m : nat -> nat -> nat -> dual R),
  DR3 M t0 m ->
  forall j : nat,
  0 < sq3 (fun d : nat => M t0 0%nat j d - M t0 npx j d) ->
  DR (fun t : R => g_chords npx (M t) j) t0 (g_chords npx m j).
Proof. exact g_chords_DR. Qed.
Print Assumptions C01_VLMGeometry_chords.

Theorem C01_VLMGeometry_normals :
  forall (M : R -> nat -> nat -> nat -> R) (t0 : R) (m : nat -> nat -> nat -> dual R),
  DR3 M t0 m ->
  forall i j d : nat,
  0 < sq3 (g_ncross (M t0) i j) -> DR (fun t : R => g_normals (M t) i j d) t0 (g_normals m i j d).
Proof. exact g_normals_DR. Qed.
Print Assumptions C01_VLMGeometry_normals.

(* wetted or projected *)
Theorem C01_VLMGeometry_S_ref :
  forall (npx npy : nat) (sym projected : bool) (M : R -> nat -> nat -> nat -> R) (t0 : R)
    (m : nat -> nat -> nat -> dual R),
  DR3 M t0 m ->
  (forall i j : nat,
   (i < npx)%nat -> (j < npy)%nat -> 0 < sq3 (g_ncross (if projected then g_proj (M t0) else M t0) i j)) ->
  DR (fun t : R => g_Sref npx npy sym projected (M t)) t0 (g_Sref npx npy sym projected m).
Proof. exact g_Sref_DR. Qed.
Print Assumptions C01_VLMGeometry_S_ref.

Theorem C01_ConvertVelocity :
  forall (A B V : R -> R) (t0 : R) (a b v : dual R) (d : nat),
  DR A t0 a ->
  DR B t0 b -> DR V t0 v -> DR (fun t : R => freestream (A t) (B t) (V t) d) t0 (freestream a b v d).
Proof. exact freestream_DR. Qed.
Print Assumptions C01_ConvertVelocity.

Theorem C01_RotationalVelocity :
  forall (Om Cg P : R -> nat -> R) (t0 : R) (om cg p : nat -> dual R) (d : nat),
  DRv Om t0 om ->
  DRv Cg t0 cg -> DRv P t0 p -> DR (fun t : R => rot_vel (Om t) (Cg t) (P t) d) t0 (rot_vel om cg p d).
Proof. exact rot_vel_DR. Qed.
Print Assumptions C01_RotationalVelocity.

Theorem C01_VLMMtxRHSComp_mtx :
  forall (Vm : R -> nat -> nat -> nat -> R) (Nm : R -> nat -> nat -> R) (t0 : R)
    (vm : nat -> nat -> nat -> dual R) (nm : nat -> nat -> dual R) (p q : nat),
  DR3 Vm t0 vm -> DR2 Nm t0 nm -> DR (fun t : R => aic_mtx (Vm t) (Nm t) p q) t0 (aic_mtx vm nm p q).
Proof. exact aic_mtx_DR. Qed.
Print Assumptions C01_VLMMtxRHSComp_mtx.

Theorem C01_VLMMtxRHSComp_rhs :
  forall (Fs Nm : R -> nat -> nat -> R) (t0 : R) (fs nm : nat -> nat -> dual R) (p : nat),
  DR2 Fs t0 fs -> DR2 Nm t0 nm -> DR (fun t : R => aic_rhs (Fs t) (Nm t) p) t0 (aic_rhs fs nm p).
Proof. exact aic_rhs_DR. Qed.
Print Assumptions C01_VLMMtxRHSComp_rhs.

(* implicit component: the linearisation of the residual *)
Theorem C01_SolveMatrix_residual :
  forall (n : nat) (Mt : R -> nat -> nat -> R) (Rh Ci : R -> nat -> R) (t0 : R) (mt : nat -> nat -> dual R)
    (rh ci : nat -> dual R) (p : nat),
  DR2 Mt t0 mt ->
  DR1 Rh t0 rh ->
  DR1 Ci t0 ci -> DR (fun t : R => solve_residual n (Mt t) (Rh t) (Ci t) p) t0 (solve_residual n mt rh ci p).
Proof. exact solve_residual_DR. Qed.
Print Assumptions C01_SolveMatrix_residual.

(* the composed wiring mesh -> vectors -> influence matrix, right-hand side -> residual *)
Theorem C01_VLMStates_chain_to_residual :
  forall (npx npy : nat) (sym left : bool) (Al Be V : R -> R) (M : R -> nat -> nat -> nat -> R)
    (C : R -> nat -> R) (t0 : R) (al be v : dual R) (m : nat -> nat -> nat -> dual R) 
    (c : nat -> dual R),
  DR Al t0 al ->
  DR Be t0 be ->
  DR V t0 v ->
  DR3 M t0 m ->
  DR1 C t0 c ->
  (0 < npy)%nat ->
  (forall i j : nat, (i < npx)%nat -> (j < npy)%nat -> 0 < sq3 (g_ncross (M t0) i j)) ->
  (forall b e i j : nat, ring_ok npx (fun t : R => chain_vectors npx npy sym left (M t)) t0 b e i j) ->
  (forall b e j : nat, trail_ok npx Al (fun t : R => chain_vectors npx npy sym left (M t)) t0 b e j) ->
  forall p : nat,
  (p < npx * npy)%nat ->
  DR (fun t : R => chain_residual npx npy sym left (Al t) (Be t) (V t) (M t) (C t) p) t0
    (chain_residual npx npy sym left al be v m c p).
Proof. exact chain_residual_DR. Qed.
Print Assumptions C01_VLMStates_chain_to_residual.

Theorem C01_HorseshoeCirculations :
  forall (npy : nat) (Ci : R -> nat -> nat -> R) (t0 : R) (ci : nat -> nat -> dual R) (i j : nat),
  DR2 Ci t0 ci -> DR (fun t : R => horseshoe npy (Ci t) i j) t0 (horseshoe npy ci i j).
Proof. exact horseshoe_DR. Qed.
Print Assumptions C01_HorseshoeCirculations.

Theorem C01_EvalVelocities :
  forall (n : nat) (Fs : R -> nat -> nat -> R) (Vm : R -> nat -> nat -> nat -> R) (Ci : R -> nat -> R) 
    (t0 : R) (fs : nat -> nat -> dual R) (vm : nat -> nat -> nat -> dual R) (ci : nat -> dual R) 
    (p d : nat),
  DR2 Fs t0 fs ->
  DR3 Vm t0 vm ->
  DR1 Ci t0 ci -> DR (fun t : R => eval_velocity n (Fs t) (Vm t) (Ci t) p d) t0 (eval_velocity n fs vm ci p d).
Proof. exact eval_velocity_DR. Qed.
Print Assumptions C01_EvalVelocities.

Theorem C01_PanelForces :
  forall (Rho : R -> R) (Hs : R -> nat -> R) (Ve Bv : R -> nat -> nat -> R) (t0 : R) 
    (rho : dual R) (hs : nat -> dual R) (ve bv : nat -> nat -> dual R) (p d : nat),
  DR Rho t0 rho ->
  DR1 Hs t0 hs ->
  DR2 Ve t0 ve ->
  DR2 Bv t0 bv ->
  DR (fun t : R => panel_force (Rho t) (Hs t) (Ve t) (Bv t) p d) t0 (panel_force rho hs ve bv p d).
Proof. exact panel_force_DR. Qed.
Print Assumptions C01_PanelForces.

