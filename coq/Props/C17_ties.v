(* C17_ties.v - GENERATED once by harness/gen_ties.py.  Translator ties of C17: structural facts of the code that the models and
   oracles of this property rest on, regenerated from /repo on every run, equal the reviewed ones:
     - group wiring (which output feeds which input, as OpenMDAO resolves it) of the canonical models of: AeroPoint, AerostructPoint
     - unit contract (declared units of every input / output) of the classes in: common, functionals
     - option defaults of the classes in: functionals
   An edit that re-wires a group, drops / changes a unit or changes a default in these areas breaks the obligation; the oracles of
   the property then look for the failing input. *)
From Coq Require Import String List Bool.
From OAS Require Import Wiring WiringReviewed IOUnits IOUnitsReviewed OptionDefaults OptionDefaultsReviewed Tie_wiring_AeroPoint Tie_wiring_AerostructPoint Tie_units_common Tie_units_functionals Tie_options_functionals.
Import ListNotations.

Theorem C17_wiring_of_AeroPoint_models_is_the_reviewed_one :
  wiring_family_AeroPoint gen_wiring = wiring_family_AeroPoint reviewed_wiring /\ wiring_family_AeroPoint reviewed_wiring <> [].
Proof. split; [exact wiring_AeroPoint_reviewed | exact wiring_AeroPoint_nonempty]. Qed.
Print Assumptions C17_wiring_of_AeroPoint_models_is_the_reviewed_one.

Theorem C17_wiring_of_AerostructPoint_models_is_the_reviewed_one :
  wiring_family_AerostructPoint gen_wiring = wiring_family_AerostructPoint reviewed_wiring /\ wiring_family_AerostructPoint reviewed_wiring <> [].
Proof. split; [exact wiring_AerostructPoint_reviewed | exact wiring_AerostructPoint_nonempty]. Qed.
Print Assumptions C17_wiring_of_AerostructPoint_models_is_the_reviewed_one.

Theorem C17_unit_contract_of_common_is_the_reviewed_one :
  units_dir_common gen_io_units = units_dir_common reviewed_io_units /\ units_dir_common reviewed_io_units <> [].
Proof. split; [exact units_common_reviewed | exact units_common_nonempty]. Qed.
Print Assumptions C17_unit_contract_of_common_is_the_reviewed_one.

Theorem C17_unit_contract_of_functionals_is_the_reviewed_one :
  units_dir_functionals gen_io_units = units_dir_functionals reviewed_io_units /\ units_dir_functionals reviewed_io_units <> [].
Proof. split; [exact units_functionals_reviewed | exact units_functionals_nonempty]. Qed.
Print Assumptions C17_unit_contract_of_functionals_is_the_reviewed_one.

Theorem C17_option_defaults_of_functionals_are_the_reviewed_ones :
  options_dir_functionals gen_option_defaults = options_dir_functionals reviewed_option_defaults /\ options_dir_functionals reviewed_option_defaults <> [].
Proof. split; [exact options_functionals_reviewed | exact options_functionals_nonempty]. Qed.
Print Assumptions C17_option_defaults_of_functionals_are_the_reviewed_ones.
