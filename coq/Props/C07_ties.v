(* C07_ties.v - GENERATED once by harness/gen_ties.py.  Translator ties of C07: structural facts of the code that the models and
   oracles of this property rest on, regenerated from /repo on every run, equal the reviewed ones:
     - group wiring (which output feeds which input, as OpenMDAO resolves it) of the canonical models of: AeroPoint, AerostructPoint, SpatialBeamAlone
     - unit contract (declared units of every input / output) of the classes in: -
     - option defaults of the classes in: geometry
   An edit that re-wires a group, drops / changes a unit or changes a default in these areas breaks the obligation; the oracles of
   the property then look for the failing input. *)
From Coq Require Import String List Bool.
From OAS Require Import Wiring WiringReviewed IOUnits IOUnitsReviewed OptionDefaults OptionDefaultsReviewed Tie_wiring_AeroPoint Tie_wiring_AerostructPoint Tie_wiring_SpatialBeamAlone Tie_options_geometry.
Import ListNotations.

Theorem C07_wiring_of_AeroPoint_models_is_the_reviewed_one :
  wiring_family_AeroPoint gen_wiring = wiring_family_AeroPoint reviewed_wiring /\ wiring_family_AeroPoint reviewed_wiring <> [].
Proof. split; [exact wiring_AeroPoint_reviewed | exact wiring_AeroPoint_nonempty]. Qed.
Print Assumptions C07_wiring_of_AeroPoint_models_is_the_reviewed_one.

Theorem C07_wiring_of_AerostructPoint_models_is_the_reviewed_one :
  wiring_family_AerostructPoint gen_wiring = wiring_family_AerostructPoint reviewed_wiring /\ wiring_family_AerostructPoint reviewed_wiring <> [].
Proof. split; [exact wiring_AerostructPoint_reviewed | exact wiring_AerostructPoint_nonempty]. Qed.
Print Assumptions C07_wiring_of_AerostructPoint_models_is_the_reviewed_one.

Theorem C07_wiring_of_SpatialBeamAlone_models_is_the_reviewed_one :
  wiring_family_SpatialBeamAlone gen_wiring = wiring_family_SpatialBeamAlone reviewed_wiring /\ wiring_family_SpatialBeamAlone reviewed_wiring <> [].
Proof. split; [exact wiring_SpatialBeamAlone_reviewed | exact wiring_SpatialBeamAlone_nonempty]. Qed.
Print Assumptions C07_wiring_of_SpatialBeamAlone_models_is_the_reviewed_one.

Theorem C07_option_defaults_of_geometry_are_the_reviewed_ones :
  options_dir_geometry gen_option_defaults = options_dir_geometry reviewed_option_defaults /\ options_dir_geometry reviewed_option_defaults <> [].
Proof. split; [exact options_geometry_reviewed | exact options_geometry_nonempty]. Qed.
Print Assumptions C07_option_defaults_of_geometry_are_the_reviewed_ones.
