(* C01 - analytic component derivatives equal the true derivatives.  Property theorems only (statements printed by Coq from the libraries Real/*Deriv.v).  DR g t0 p  :=  g t0 = fst p /\ is_derive g t0 (snd p);  every theorem says: along ANY differentiable curve of the inputs, the dual-number evaluation of the component model gives the value and the derivative - hence every partial derivative (C01_dual_number_tangent_is_the_partial_derivative) and, by composition, every chain of components (part 2) *)
From Coq Require Import Reals ZArith Lra Lia Arith Bool List String.
From Coquelicot Require Import Coquelicot.
From OAS Require Import Scalar Rops Sums Deriv Dual DualProofs Drag DragDeriv Stress StressDeriv StressProofs Transfer TransferDeriv Loads LoadsDeriv Functionals FunctionalsDeriv Aero AeroDeriv PG PGDeriv Beam BeamTables BeamDeriv Geom GeomDeriv Misc MiscDeriv MultiSec MultiSecDeriv Wingbox WingboxDeriv Small SmallDeriv Mphys MphysDeriv.
Open Scope R_scope.

Theorem C01_ComputeTransformationMatrix :
  forall (Dp : R -> nat -> nat -> R) (t0 : R) (dp : nat -> nat -> dual R) (j a b : nat),
  DR2 Dp t0 dp -> DR (fun t : R => transf_mtx (Dp t) j a b) t0 (transf_mtx dp j a b).
Proof. exact transf_mtx_DR. Qed.
Print Assumptions C01_ComputeTransformationMatrix.

Theorem C01_DisplacementTransfer :
  forall (M : R -> nat -> nat -> nat -> R) (Dp : R -> nat -> nat -> R) (Tm : R -> nat -> nat -> nat -> R)
    (Nd : R -> nat -> nat -> R) (t0 : R) (m : nat -> nat -> nat -> dual R) (dp : nat -> nat -> dual R)
    (tm : nat -> nat -> nat -> dual R) (nd : nat -> nat -> dual R) (i j d : nat),
  DR3 M t0 m ->
  DR2 Dp t0 dp ->
  DR3 Tm t0 tm ->
  DR2 Nd t0 nd -> DR (fun t : R => def_mesh (M t) (Dp t) (Tm t) (Nd t) i j d) t0 (def_mesh m dp tm nd i j d).
Proof. exact def_mesh_DR. Qed.
Print Assumptions C01_DisplacementTransfer.

(* the chain nodes -> transformation matrix -> deformed mesh *)
Theorem C01_DisplacementTransferGroup :
  forall (npx : nat) (W : R -> R) (M : R -> nat -> nat -> nat -> R) (Dp : R -> nat -> nat -> R) 
    (t0 : R) (w : dual R) (m : nat -> nat -> nat -> dual R) (dp : nat -> nat -> dual R) 
    (i j d : nat),
  DR W t0 w ->
  DR3 M t0 m ->
  DR2 Dp t0 dp ->
  DR (fun t : R => def_mesh_group npx (W t) (M t) (Dp t) i j d) t0 (def_mesh_group npx w m dp i j d).
Proof. exact def_mesh_group_DR. Qed.
Print Assumptions C01_DisplacementTransferGroup.

Theorem C01_MeshPointForces :
  forall (npx npy : nat) (Le Te : R -> R) (F : R -> nat -> nat -> nat -> R) (t0 : R) 
    (le te : dual R) (f : nat -> nat -> nat -> dual R) (i j d : nat),
  DR Le t0 le ->
  DR Te t0 te ->
  DR3 F t0 f ->
  DR (fun t : R => mesh_point_forces npx npy (Le t) (Te t) (F t) i j d) t0
    (mesh_point_forces npx npy le te f i j d).
Proof. exact mesh_point_forces_DR. Qed.
Print Assumptions C01_MeshPointForces.

Theorem C01_Weight_element :
  forall (N : R -> nat -> nat -> R) (t0 : R) (n : nat -> nat -> dual R),
  DR2 N t0 n ->
  forall (Mr Ww : R -> R) (A : R -> nat -> R) (mr ww : dual R) (a : nat -> dual R) (e : nat),
  DR Mr t0 mr ->
  DR Ww t0 ww ->
  DR1 A t0 a ->
  elen_pos N t0 e -> DR (fun t : R => element_mass (N t) (Mr t) (Ww t) (A t) e) t0 (element_mass n mr ww a e).
Proof. exact element_mass_DR. Qed.
Print Assumptions C01_Weight_element.

Theorem C01_Weight_total :
  forall (N : R -> nat -> nat -> R) (t0 : R) (n : nat -> nat -> dual R),
  DR2 N t0 n ->
  forall (ne : nat) (sym : bool) (Mr Ww : R -> R) (A : R -> nat -> R) (mr ww : dual R) (a : nat -> dual R),
  DR Mr t0 mr ->
  DR Ww t0 ww ->
  DR1 A t0 a ->
  (forall e : nat, (e < ne)%nat -> elen_pos N t0 e) ->
  DR (fun t : R => structural_mass (N t) ne sym (Mr t) (Ww t) (A t)) t0 (structural_mass n ne sym mr ww a).
Proof. exact structural_mass_DR. Qed.
Print Assumptions C01_Weight_total.

Theorem C01_StructuralCG :
  forall (N : R -> nat -> nat -> R) (t0 : R) (n : nat -> nat -> dual R),
  DR2 N t0 n ->
  forall (ne : nat) (sym : bool) (M : R -> R) (Em : R -> nat -> R) (m : dual R) (em : nat -> dual R) (d : nat),
  DR M t0 m ->
  DR1 Em t0 em ->
  M t0 <> 0 -> DR (fun t : R => cg_location (N t) ne sym (M t) (Em t) d) t0 (cg_location n ne sym m em d).
Proof. exact cg_location_DR. Qed.
Print Assumptions C01_StructuralCG.

Theorem C01_StructureWeightLoads :
  forall (N : R -> nat -> nat -> R) (t0 : R) (n : nat -> nat -> dual R),
  DR2 N t0 n ->
  forall (ne : nat) (G Lf : R -> R) (Em : R -> nat -> R) (g lf : dual R) (em : nat -> dual R) (j c : nat),
  DR G t0 g ->
  DR Lf t0 lf ->
  DR1 Em t0 em ->
  (forall e : nat, (e < ne)%nat -> elen_pos N t0 e /\ hlen_pos N t0 e) ->
  (j <= ne)%nat ->
  DR (fun t : R => struct_weight_loads (N t) ne (G t) (Lf t) (Em t) j c) t0
    (struct_weight_loads n ne g lf em j c).
Proof. exact struct_weight_loads_DR. Qed.
Print Assumptions C01_StructureWeightLoads.

(* partials declared by complex step in the code *)
Theorem C01_FuelLoads :
  forall (N : R -> nat -> nat -> R) (t0 : R) (n : nat -> nat -> dual R),
  DR2 N t0 n ->
  forall (ne : nat) (sym : bool) (G Lf Fm Rs : R -> R) (V : R -> nat -> R) (g lf fm rs : dual R)
    (v : nat -> dual R) (j c : nat),
  DR G t0 g ->
  DR Lf t0 lf ->
  DR Fm t0 fm ->
  DR Rs t0 rs ->
  DR1 V t0 v ->
  (forall e : nat, (e < ne)%nat -> elen_pos N t0 e /\ hlen_pos N t0 e) ->
  rsum ne (V t0) <> 0 ->
  (j <= ne)%nat ->
  DR (fun t : R => fuel_weight_loads (N t) ne sym (G t) (Lf t) (Fm t) (Rs t) (V t) j c) t0
    (fuel_weight_loads n ne sym g lf fm rs v j c).
Proof. exact fuel_weight_loads_DR. Qed.
Print Assumptions C01_FuelLoads.

Theorem C01_WingboxFuelVols :
  forall (N : R -> nat -> nat -> R) (t0 : R) (n : nat -> nat -> dual R),
  DR2 N t0 n ->
  forall (A : R -> nat -> R) (a : nat -> dual R) (e : nat),
  DR1 A t0 a -> elen_pos N t0 e -> DR (fun t : R => fuel_vols (N t) (A t) e) t0 (fuel_vols n a e).
Proof. exact fuel_vols_DR. Qed.
Print Assumptions C01_WingboxFuelVols.

(* the pure function; the code's in-place halving of its input is recorded finding F09 *)
Theorem C01_WingboxFuelVolDelta_pure_member :
  forall (ne : nat) (sym : bool) (Fb Rs Dn : R -> R) (V : R -> nat -> R) (t0 : R) (fb rs dn : dual R)
    (v : nat -> dual R),
  DR Fb t0 fb ->
  DR Rs t0 rs ->
  DR Dn t0 dn ->
  DR1 V t0 v ->
  Dn t0 <> 0 ->
  DR (fun t : R => fuel_vol_delta ne sym (Fb t) (Rs t) (Dn t) (V t)) t0 (fuel_vol_delta ne sym fb rs dn v).
Proof. exact fuel_vol_delta_DR. Qed.
Print Assumptions C01_WingboxFuelVolDelta_pure_member.

Theorem C01_ComputePointMassLoads :
  forall (N : R -> nat -> nat -> R) (t0 : R) (n : nat -> nat -> dual R),
  DR2 N t0 n ->
  forall (ne npm : nat) (G Lf : R -> R) (Locs : R -> nat -> nat -> R) (Ms : R -> nat -> R) 
    (g lf : dual R) (locs : nat -> nat -> dual R) (ms : nat -> dual R) (j c : nat),
  DR G t0 g ->
  DR Lf t0 lf ->
  DR2 Locs t0 locs ->
  DR1 Ms t0 ms ->
  DR (fun t : R => loads_from_point_masses (N t) ne npm (G t) (Lf t) (Locs t) (Ms t) j c) t0
    (loads_from_point_masses n ne npm g lf locs ms j c).
Proof. exact loads_from_point_masses_DR. Qed.
Print Assumptions C01_ComputePointMassLoads.

