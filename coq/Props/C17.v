(* C17 — performance and flight-condition functionals satisfy their defining identities.
   Property theorems only; proofs in Real/FunctionalsProofs.v and Real/AtmosProofs.v. *)
From Coq Require Import Reals Arith List QArith.
From OAS Require Import Scalar Rops Sums Functionals FunctionalsProofs Atmos AtmosTable AtmosProofs.
Import ListNotations.
Open Scope R_scope.

(* aircraft coefficient = reference-area weighted sum of the surface coefficients / S_ref_total,
   for any number of surfaces; with the summed area (SumAreas) it is the weighted mean *)
Theorem C17_coefficients_area_weighted :
  forall (cs : list (R * R)) S_tot,
    tld_coeff cs S_tot = rlsum cs (fun p => fst p * snd p) / S_tot /\
    tld_coeff cs (sum_areas (map snd cs)) = rlsum cs (fun p => fst p * snd p) / rlsum cs snd.
Proof. intros; split; [apply coeff_area_weighted | apply coeff_area_weighted_sum]. Qed.
Print Assumptions C17_coefficients_area_weighted.

Theorem C17_force_is_q_S_C :
  forall (cs : list (R * R)) rho v S_tot, S_tot <> 0 ->
    tld_force cs rho v = (1 / 2 * rho * (v * v)) * S_tot * tld_coeff cs S_tot.
Proof. exact force_eq_q_S_C. Qed.
Print Assumptions C17_force_is_q_S_C.

Theorem C17_total_weight_def :
  forall g0 lf W0 fb (ms : list R),
    eq_total_weight g0 lf W0 fb ms = (W0 + rlsum ms (fun m => m) + fb) * g0 * lf.
Proof. exact total_weight_def. Qed.
Print Assumptions C17_total_weight_def.

Theorem C17_lift_equals_weight_residual :
  forall g0 lf W0 fb (ms : list R) rho v S CL,
    eq_LW g0 lf W0 fb ms rho v S CL = 1 - (1 / 2 * rho * (v * v) * S * CL) / eq_total_weight g0 lf W0 fb ms.
Proof. exact LW_def. Qed.
Print Assumptions C17_lift_equals_weight_residual.

Theorem C17_residual_zero_iff_lift_equals_weight :
  forall g0 lf W0 fb (ms : list R) rho v S CL,
    eq_total_weight g0 lf W0 fb ms <> 0 ->
    (eq_LW g0 lf W0 fb ms rho v S CL = 0 <-> eq_lift rho v S CL = eq_total_weight g0 lf W0 fb ms).
Proof. exact LW_zero_iff. Qed.
Print Assumptions C17_residual_zero_iff_lift_equals_weight.

Theorem C17_breguet_def :
  forall (CT a Rng M W0 CL CD : R) (ms : list R),
    breguet CT a Rng M W0 CL CD ms = (W0 + rlsum ms (fun m => m)) * (exp (Rng * CT / a / M * CD / CL) - 1).
Proof. exact breguet_def. Qed.
Print Assumptions C17_breguet_def.

Theorem C17_fuelburn_nonneg :
  forall (CT a Rng M W0 CL CD : R) (ms : list R),
    0 <= W0 -> (forall m, In m ms -> 0 <= m) -> 0 <= Rng * CT / a / M * CD / CL ->
    0 <= breguet CT a Rng M W0 CL CD ms.
Proof. exact fuelburn_nonneg. Qed.
Print Assumptions C17_fuelburn_nonneg.

(* fed with Equilibrium's total weight, the aircraft cg is the mass-weighted mean of the empty-aircraft
   cg and the surfaces' structural cgs (fuel is assumed at the cg: denominator W0 + sum m_s) *)
Theorem C17_cg_mass_weighted :
  forall g0 lf W0 fb cg0 (ss : list (R * (nat -> R))) d,
    g0 * lf <> 0 -> W0 + rlsum ss fst <> 0 ->
    cog g0 lf W0 fb (eq_total_weight g0 lf W0 fb (map fst ss)) cg0 ss d
    = (W0 * cg0 d + rlsum ss (fun s => fst s * snd s d)) / (W0 + rlsum ss fst).
Proof. exact cog_mass_weighted. Qed.
Print Assumptions C17_cg_mass_weighted.

(* CM = summed moment about cg / (q S_ref_total MAC of the first surface); symmetric surfaces
   contribute twice their y moment and nothing about x and z *)
Theorem C17_CM_def :
  forall (ss : list (@MSurf R)) cg rho v S_tot d s0 rest, ss = s0 :: rest ->
    moment_CM ss cg rho v S_tot d = moment_M ss cg d / (1 / 2 * rho * (v * v) * S_tot * ms_MAC s0) /\
    moment_M ss cg d = rlsum ss (fun s => ms_moment s cg d).
Proof. intros; split; [eapply CM_def; eassumption | apply M_is_sum]. Qed.
Print Assumptions C17_CM_def.

Theorem C17_symmetric_surface_moment :
  forall (s : @MSurf R) cg d, ms_sym s = true ->
    ms_moment s cg d = if (d =? 1)%nat then 2 * ms_moment_raw s cg d else 0.
Proof. exact symmetric_surface_moment. Qed.
Print Assumptions C17_symmetric_surface_moment.

Theorem C17_speed_and_reynolds :
  forall a M rho v mu : R, speed a M = a * M /\ reynolds rho v mu = rho * v / mu.
Proof. intros; split; reflexivity. Qed.
Print Assumptions C17_speed_and_reynolds.

(* atmosphere: every Akima (cubic Hermite) interpolant is C1 at its knots, for any table *)
Theorem C17_interpolant_C1_at_knots :
  forall (x y t : nat -> R) k, x (S k) <> x k ->
    hp_val x y t k (x (S k)) = hp_val x y t (S k) (x (S k)) /\
    hp_der x y t k (x (S k)) = hp_der x y t (S k) (x (S k)).
Proof. exact hermite_C1_at_knot. Qed.
Print Assumptions C17_interpolant_C1_at_knots.

Theorem C17_interpolant_interpolates :
  forall (x y t : nat -> R) k, x (S k) <> x k ->
    hp_val x y t k (x k) = y k /\ hp_val x y t k (x (S k)) = y (S k).
Proof. intros; split; [apply hp_val_left | apply hp_val_right; assumption]. Qed.
Print Assumptions C17_interpolant_interpolates.

(* the table as it stands in the source, exhaustively at its knots (exact rationals) *)
Theorem C17_table_well_formed :
  (length atm_alt_zz = atm_n /\ length atm_T_zz = atm_n /\ length atm_P_zz = atm_n /\
   length atm_rho_zz = atm_n /\ length atm_a_zz = atm_n /\ length atm_mu_zz = atm_n)%nat /\
  increasing atm_alt_q = true /\ forallb positive_ok (seq 0 atm_n) = true.
Proof. exact (conj atm_lengths (conj atm_grid_increasing atm_positive)). Qed.
Print Assumptions C17_table_well_formed.

Theorem C17_table_ideal_gas_at_knots :
  forallb (ideal_gas_ok (Qmake 2 10000)) (seq 0 atm_n) = true.
Proof. exact atm_ideal_gas_knots. Qed.
Print Assumptions C17_table_ideal_gas_at_knots.

Theorem C17_table_speed_of_sound_at_knots :
  forallb (sound_ok (Qmake 2 10000)) (seq 0 atm_n) = true.
Proof. exact atm_sound_speed_knots. Qed.
Print Assumptions C17_table_speed_of_sound_at_knots.

Theorem C17_table_pressure_density_decrease :
  decreasing atm_P_q = true /\ decreasing atm_rho_q = true.
Proof. exact atm_P_rho_decreasing. Qed.
Print Assumptions C17_table_pressure_density_decrease.

