(* C05 — the VLM solution satisfies flow tangency and matches an independent reference.
   Property theorems only; proofs in Real/AeroProofs.v, textbook definitions in Spec/VLM.v. *)
From Coq Require Import Reals Arith.
From OAS Require Import Scalar Rops Sums Stress Vec3 Aero VLM AeroProofs.
Open Scope R_scope.

(* the code's segment kernel is the textbook Biot-Savart segment (away from the segment's own line
   and above the absolute tolerance of the code) *)
Theorem C05_segment_kernel_is_biot_savart :
  forall (P A B : nat -> R) d, (d < 3)%nat ->
    let r1 := vsub P A in let r2 := vsub P B in
    0 < dot r1 r1 -> 0 < dot r2 r2 -> 0 < dot (cross r1 r2) (cross r1 r2) ->
    vtol < Rabs (nrm r1 * nrm r2 + dot r1 r2) ->
    fv r1 r2 d = bs_segment P A B d.
Proof. exact fv_eq_textbook. Qed.
Print Assumptions C05_segment_kernel_is_biot_savart.

Theorem C05_trailing_leg_is_semi_infinite_vortex :
  forall (P A u : nat -> R) d, (d < 3)%nat ->
    let r := vsub P A in
    dot u u = 1 -> 0 < dot r r -> 0 < dot (cross u r) (cross u r) ->
    semi u r d = bs_semi_out P A u d.
Proof. exact semi_eq_textbook. Qed.
Print Assumptions C05_trailing_leg_is_semi_infinite_vortex.

(* wakes trail along the angle-of-attack direction, a unit vector *)
Theorem C05_wake_direction_unit : forall a : R, dot (wake_u a) (wake_u a) = 1.
Proof. exact wake_u_unit. Qed.
Print Assumptions C05_wake_direction_unit.

Theorem C05_segment_kernel_antisymmetric :
  forall (r1 r2 : nat -> R) d, (d < 3)%nat -> fv r1 r2 d = - fv r2 r1 d.
Proof. exact fv_antisym. Qed.
Print Assumptions C05_segment_kernel_antisymmetric.

(* every panel is a closed ring of four segments ... *)
Theorem C05_inner_panel_is_closed_ring :
  forall npx npy alpha_deg vec e i j d, (S i <> npx)%nat ->
    vel_mtx npx npy false false false alpha_deg vec e i j d
    = fv (vtx npx vec 0 e i (S j)) (vtx npx vec 0 e i j) d
      + fv (vtx npx vec 0 e i j) (vtx npx vec 0 e (S i) j) d
      + fv (vtx npx vec 0 e (S i) j) (vtx npx vec 0 e (S i) (S j)) d
      + fv (vtx npx vec 0 e (S i) (S j)) (vtx npx vec 0 e i (S j)) d.
Proof. exact inner_row_is_ring. Qed.
Print Assumptions C05_inner_panel_is_closed_ring.

(* ... except on the last chordwise row, which is a horseshoe closed at infinity by two wake legs *)
Theorem C05_last_row_is_horseshoe :
  forall npx npy alpha_deg vec e j d, (d < 3)%nat -> (0 < npx)%nat ->
    let i := (npx - 1)%nat in
    let A := vtx npx vec 0 e i (S j) in let B := vtx npx vec 0 e i j in
    let C := vtx npx vec 0 e (S i) j in let D := vtx npx vec 0 e (S i) (S j) in
    vel_mtx npx npy false false false alpha_deg vec e i j d
    = fv A B d + fv B C d + fv D A d - semi (wake_u alpha_deg) D d + semi (wake_u alpha_deg) C d.
Proof. exact last_row_is_horseshoe. Qed.
Print Assumptions C05_last_row_is_horseshoe.

(* lattice geometry: vortex rings on the panel quarter chords (trailing edge kept), collocation at
   three-quarter chord, force point at quarter chord, bound vector between the quarter-chord points *)
Theorem C05_lattice_geometry :
  forall npx (m : nat -> nat -> nat -> R) i j d,
    qc_rows npx m i j d = (if (i <? npx)%nat then m i j d + 1 / 4 * (m (S i) j d - m i j d) else m npx j d) /\
    coll_pts m i j d = 1 / 2 * ((m i j d + 3 / 4 * (m (S i) j d - m i j d))
                              + (m i (S j) d + 3 / 4 * (m (S i) (S j) d - m i (S j) d))) /\
    force_pts_c m i j d = 1 / 2 * ((m i j d + 1 / 4 * (m (S i) j d - m i j d))
                                 + (m i (S j) d + 1 / 4 * (m (S i) (S j) d - m i (S j) d))) /\
    bound_vecs m i j d = (m i j d + 1 / 4 * (m (S i) j d - m i j d))
                       - (m i (S j) d + 1 / 4 * (m (S i) (S j) d - m i (S j) d)).
Proof.
  intros. split; [apply vortex_lattice_quarter|]. split; [apply coll_pts_three_quarter|].
  split; [apply force_pts_quarter | apply bound_vec_quarter].
Qed.
Print Assumptions C05_lattice_geometry.

Theorem C05_normals_are_unit :
  forall (m : nat -> nat -> nat -> R) i j,
    0 < dot (g_ncross m i j) (g_ncross m i j) -> dot (g_normals m i j) (g_normals m i j) = 1.
Proof. exact normals_unit. Qed.
Print Assumptions C05_normals_are_unit.

(* the solved strengths make the normal velocity vanish at every collocation point: for any number
   of panels n (all surfaces together), any influence field, any onset velocities *)
Theorem C05_solution_is_tangent :
  forall n (velm : nat -> nat -> nat -> R) (fs normals : nat -> nat -> R) (G : nat -> R),
    (forall p, (p < n)%nat -> solve_residual n (aic_mtx velm normals) (aic_rhs fs normals) G p = 0) <->
    tangent n velm fs normals G.
Proof. intros; split; [apply solution_is_tangent | apply tangent_is_solution]. Qed.
Print Assumptions C05_solution_is_tangent.

(* each panel force is rho * horseshoe strength * (onset + induced velocity) x bound vector *)
Theorem C05_panel_force_is_kutta_joukowski :
  forall n rho (hs : nat -> R) (fs : nat -> nat -> R) (velm : nat -> nat -> nat -> R) (G : nat -> R) (bv : nat -> nat -> R) p d,
    panel_force rho hs (eval_velocity n fs velm G) bv p d
    = kutta_joukowski rho (hs p) (fun k => fs p k + rsum n (fun q => velm p q k * G q)) (bv p) d.
Proof. exact panel_force_is_KJ. Qed.
Print Assumptions C05_panel_force_is_kutta_joukowski.

Theorem C05_horseshoe_strength :
  forall npy (circ : nat -> nat -> R) i j,
    horseshoe npy circ i j = circ i j - (if (i =? 0)%nat then 0 else circ (i - 1)%nat j).
Proof. exact horseshoe_def. Qed.
Print Assumptions C05_horseshoe_strength.


(* ---- sign conventions pinned on the simplest wing (Real/SignPin.v): one flat rectangular panel of chord c and span b,
   spanwise index increasing with y, not symmetric; |alpha| < 90 deg.  The models composed here (collocation and force
   points, vortex lattice, kernels, normals, right-hand side, residual, velocities, Kutta-Joukowski force) are the ones
   executed against the implementation by the streams; the oracle AeroPoint.one-panel-sign-conventions checks the same
   conclusions on the implementation. ---- *)
From OAS Require Import SignPin.
Theorem C05_one_panel_influence_coefficient_positive :
  forall c b, 0 < c -> 0 < b -> forall alpha, 0 < cos (alpha * PI / 180) ->
    0 < chain_aic 1 1 false true alpha (rect c b) 0 0.
Proof. exact aic_pos. Qed.
Print Assumptions C05_one_panel_influence_coefficient_positive.

Theorem C05_one_panel_circulation :
  forall c b, 0 < c -> 0 < b -> forall alpha, 0 < cos (alpha * PI / 180) -> forall beta v (G : nat -> R),
    chain_residual 1 1 false true alpha beta v (rect c b) G 0 = 0 ->
    G 0%nat = - (v * sin (alpha * PI / 180) * cos (beta * PI / 180)) / chain_aic 1 1 false true alpha (rect c b) 0 0.
Proof. exact circulation_value. Qed.
Print Assumptions C05_one_panel_circulation.

Theorem C05_one_panel_circulation_negative_at_positive_alpha :
  forall c b, 0 < c -> 0 < b -> forall alpha, 0 < cos (alpha * PI / 180) -> forall beta v (G : nat -> R),
    0 < v -> 0 < cos (beta * PI / 180) -> 0 < sin (alpha * PI / 180) ->
    chain_residual 1 1 false true alpha beta v (rect c b) G 0 = 0 -> G 0%nat < 0.
Proof. exact circulation_negative_at_positive_alpha. Qed.
Print Assumptions C05_one_panel_circulation_negative_at_positive_alpha.

Theorem C05_one_panel_lift_positive_at_positive_alpha :
  forall c b, 0 < c -> 0 < b -> forall alpha, 0 < cos (alpha * PI / 180) -> forall rho beta v (G : nat -> R),
    0 < rho -> 0 < v -> 0 < cos (beta * PI / 180) -> 0 < sin (alpha * PI / 180) ->
    chain_residual 1 1 false true alpha beta v (rect c b) G 0 = 0 -> 0 < force c b alpha rho beta v G 2.
Proof. exact lift_force_positive_at_positive_alpha. Qed.
Print Assumptions C05_one_panel_lift_positive_at_positive_alpha.

(* non-vacuity: the tangency condition of the one-panel wing has a solution *)
Theorem C05_one_panel_solution_exists :
  forall c b, 0 < c -> 0 < b -> forall alpha, 0 < cos (alpha * PI / 180) -> forall beta v,
    exists G : nat -> R, chain_residual 1 1 false true alpha beta v (rect c b) G 0 = 0.
Proof. exact circulation_exists. Qed.
Print Assumptions C05_one_panel_solution_exists.
