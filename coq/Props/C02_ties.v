(* C02_ties.v - GENERATED once by harness/gen_ties.py.  Translator ties of C02: structural facts of the code that the models and
   oracles of this property rest on, regenerated from /repo on every run, equal the reviewed ones:
     - group wiring (which output feeds which input, as OpenMDAO resolves it) of the canonical models of: AeroPoint, AerostructPoint, SpatialBeamAlone
     - unit contract (declared units of every input / output) of the classes in: -
     - option defaults of the classes in: integration, structures
   An edit that re-wires a group, drops / changes a unit or changes a default in these areas breaks the obligation; the oracles of
   the property then look for the failing input. *)
From Coq Require Import String List Bool.
From OAS Require Import Wiring WiringReviewed IOUnits IOUnitsReviewed OptionDefaults OptionDefaultsReviewed Tie_wiring_AeroPoint Tie_wiring_AerostructPoint Tie_wiring_SpatialBeamAlone Tie_options_integration Tie_options_structures.
Import ListNotations.

Theorem C02_wiring_of_AeroPoint_models_is_the_reviewed_one :
  wiring_family_AeroPoint gen_wiring = wiring_family_AeroPoint reviewed_wiring /\ wiring_family_AeroPoint reviewed_wiring <> [].
Proof. split; [exact wiring_AeroPoint_reviewed | exact wiring_AeroPoint_nonempty]. Qed.
Print Assumptions C02_wiring_of_AeroPoint_models_is_the_reviewed_one.

Theorem C02_wiring_of_AerostructPoint_models_is_the_reviewed_one :
  wiring_family_AerostructPoint gen_wiring = wiring_family_AerostructPoint reviewed_wiring /\ wiring_family_AerostructPoint reviewed_wiring <> [].
Proof. split; [exact wiring_AerostructPoint_reviewed | exact wiring_AerostructPoint_nonempty]. Qed.
Print Assumptions C02_wiring_of_AerostructPoint_models_is_the_reviewed_one.

Theorem C02_wiring_of_SpatialBeamAlone_models_is_the_reviewed_one :
  wiring_family_SpatialBeamAlone gen_wiring = wiring_family_SpatialBeamAlone reviewed_wiring /\ wiring_family_SpatialBeamAlone reviewed_wiring <> [].
Proof. split; [exact wiring_SpatialBeamAlone_reviewed | exact wiring_SpatialBeamAlone_nonempty]. Qed.
Print Assumptions C02_wiring_of_SpatialBeamAlone_models_is_the_reviewed_one.

Theorem C02_option_defaults_of_integration_are_the_reviewed_ones :
  options_dir_integration gen_option_defaults = options_dir_integration reviewed_option_defaults /\ options_dir_integration reviewed_option_defaults <> [].
Proof. split; [exact options_integration_reviewed | exact options_integration_nonempty]. Qed.
Print Assumptions C02_option_defaults_of_integration_are_the_reviewed_ones.

Theorem C02_option_defaults_of_structures_are_the_reviewed_ones :
  options_dir_structures gen_option_defaults = options_dir_structures reviewed_option_defaults /\ options_dir_structures reviewed_option_defaults <> [].
Proof. split; [exact options_structures_reviewed | exact options_structures_nonempty]. Qed.
Print Assumptions C02_option_defaults_of_structures_are_the_reviewed_ones.
