(* C08_ties.v - GENERATED once by harness/gen_ties.py.  Translator ties of C08: structural facts of the code that the models and
   oracles of this property rest on, regenerated from /repo on every run, equal the reviewed ones:
     - group wiring (which output feeds which input, as OpenMDAO resolves it) of the canonical models of: AeroPoint
     - unit contract (declared units of every input / output) of the classes in: aerodynamics
     - option defaults of the classes in: aerodynamics
   An edit that re-wires a group, drops / changes a unit or changes a default in these areas breaks the obligation; the oracles of
   the property then look for the failing input. *)
From Coq Require Import String List Bool.
From OAS Require Import Wiring WiringReviewed IOUnits IOUnitsReviewed OptionDefaults OptionDefaultsReviewed Tie_wiring_AeroPoint Tie_units_aerodynamics Tie_options_aerodynamics.
Import ListNotations.

Theorem C08_wiring_of_AeroPoint_models_is_the_reviewed_one :
  wiring_family_AeroPoint gen_wiring = wiring_family_AeroPoint reviewed_wiring /\ wiring_family_AeroPoint reviewed_wiring <> [].
Proof. split; [exact wiring_AeroPoint_reviewed | exact wiring_AeroPoint_nonempty]. Qed.
Print Assumptions C08_wiring_of_AeroPoint_models_is_the_reviewed_one.

Theorem C08_unit_contract_of_aerodynamics_is_the_reviewed_one :
  units_dir_aerodynamics gen_io_units = units_dir_aerodynamics reviewed_io_units /\ units_dir_aerodynamics reviewed_io_units <> [].
Proof. split; [exact units_aerodynamics_reviewed | exact units_aerodynamics_nonempty]. Qed.
Print Assumptions C08_unit_contract_of_aerodynamics_is_the_reviewed_one.

Theorem C08_option_defaults_of_aerodynamics_are_the_reviewed_ones :
  options_dir_aerodynamics gen_option_defaults = options_dir_aerodynamics reviewed_option_defaults /\ options_dir_aerodynamics reviewed_option_defaults <> [].
Proof. split; [exact options_aerodynamics_reviewed | exact options_aerodynamics_nonempty]. Qed.
Print Assumptions C08_option_defaults_of_aerodynamics_are_the_reviewed_ones.
