(* C19 — composition of surfaces and wrappers does not change the physics.
   Property theorems only; proofs in Real/ComposeProofs.v. *)
From Coq Require Import Reals Arith List.
From OAS Require Import Scalar Rops Sums Aero AeroProofs Mphys ComposeProofs.
Import ListNotations.
Open Scope R_scope.

(* sums (hence every influence sum) are invariant under any bijection of the panel index *)
Theorem C19_sum_invariant_under_reindexing :
  forall n (pi pi' : nat -> nat) (f : nat -> R),
    (forall i, (i < n)%nat -> (pi i < n)%nat) -> (forall i, (i < n)%nat -> (pi' i < n)%nat) ->
    (forall i, (i < n)%nat -> pi' (pi i) = i) -> (forall i, (i < n)%nat -> pi (pi' i) = i) ->
    rsum n (fun i => f (pi i)) = rsum n f.
Proof. exact rsum_bij. Qed.
Print Assumptions C19_sum_invariant_under_reindexing.

(* listing the surfaces in another order (or splitting a surface into abutting ones) re-indexes the
   panels by a bijection: the re-indexed circulations satisfy the re-indexed system equation by equation ... *)
Theorem C19_surface_order_reindexes_system :
  forall n (pi pi' : nat -> nat) (A : nat -> nat -> R) (b G : nat -> R) p,
    (forall i, (i < n)%nat -> (pi i < n)%nat) -> (forall i, (i < n)%nat -> (pi' i < n)%nat) ->
    (forall i, (i < n)%nat -> pi' (pi i) = i) -> (forall i, (i < n)%nat -> pi (pi' i) = i) ->
    solve_residual n (fun p q => A (pi p) (pi q)) (fun p => b (pi p)) (fun q => G (pi q)) p
    = solve_residual n A b G (pi p).
Proof. exact permuted_system. Qed.
Print Assumptions C19_surface_order_reindexes_system.

(* ... and the local velocities (hence the Kutta-Joukowski forces) are the re-indexed ones *)
Theorem C19_surface_order_reindexes_velocities :
  forall n (pi pi' : nat -> nat) (fs : nat -> nat -> R) (velm : nat -> nat -> nat -> R) (G : nat -> R) p d,
    (forall i, (i < n)%nat -> (pi i < n)%nat) -> (forall i, (i < n)%nat -> (pi' i < n)%nat) ->
    (forall i, (i < n)%nat -> pi' (pi i) = i) -> (forall i, (i < n)%nat -> pi (pi' i) = i) ->
    eval_velocity n (fun p => fs (pi p)) (fun p q => velm (pi p) (pi q)) (fun q => G (pi q)) p d
    = eval_velocity n fs velm G (pi p) d.
Proof. exact permuted_velocity. Qed.
Print Assumptions C19_surface_order_reindexes_velocities.

(* running offsets over the surface list (ind_1 / ind_2): the first block and the remaining blocks *)
Theorem C19_global_index_offsets :
  forall (A : Type) (dflt : A) n f r p,
    ((p < n)%nat -> flat_lookup dflt ((n, f) :: r) p = f p) /\
    flat_lookup dflt ((n, f) :: r) (n + p) = flat_lookup dflt r p.
Proof. intros; split; [apply flat_lookup_first | apply flat_lookup_rest]. Qed.
Print Assumptions C19_global_index_offsets.

(* MPhys (de)multiplexers: exact inverse re-indexings, for any list of surface sizes *)
Theorem C19_mux_demux_inverse :
  forall sizes,
    (forall (X : nat -> R) p, (p < total sizes)%nat -> mux sizes (demux sizes X) p = X p) /\
    (forall (blocks : nat -> nat -> R) s k, (s < length sizes)%nat -> (k < nth s sizes 0)%nat ->
        demux sizes (mux sizes blocks) s k = blocks s k).
Proof. intros; split; [apply mux_demux | apply demux_mux]. Qed.
Print Assumptions C19_mux_demux_inverse.

(* adjoint consistency of the matrix-free products: the reverse-mode product of mux is demux and vice versa *)
Theorem C19_mux_demux_adjoint :
  forall sizes (blocks : nat -> nat -> R) (e : nat -> R),
    rsum (total sizes) (fun p => mux sizes blocks p * e p)
    = rsum (length sizes) (fun s => rsum (nth s sizes 0%nat) (fun k => blocks s k * demux sizes e s k)).
Proof. intros. rewrite mux_adjoint. apply block_dot_is_demux_pairing. Qed.
Print Assumptions C19_mux_demux_adjoint.


(* ---- a surface far away does not matter (Real/KernelDecay.v): its segments and wake legs induce at most
   1 / (2 pi distance) per unit circulation at the points of the other surfaces ---- *)
From OAS Require Import Vec3 KernelDecay.
Theorem C19_far_surface_segment_induction_bounded_by_inverse_distance :
  forall (r1 r2 : nat -> R) d h,
    0 < h -> h <= nrm r1 -> h <= nrm r2 -> 0 <= dot r1 r2 -> Rabs (fv r1 r2 d) <= 1 / (2 * PI * h).
Proof. exact fv_decay. Qed.
Print Assumptions C19_far_surface_segment_induction_bounded_by_inverse_distance.

Theorem C19_far_surface_segment_induction_vanishes_far_away :
  forall eps, 0 < eps -> exists H, 0 < H /\
    forall r1 r2 d, H <= nrm r1 -> H <= nrm r2 -> 0 <= dot r1 r2 -> Rabs (fv r1 r2 d) < eps.
Proof. exact fv_vanishes_far_away. Qed.
Print Assumptions C19_far_surface_segment_induction_vanishes_far_away.

Theorem C19_far_surface_wake_leg_induction_bounded_by_inverse_distance :
  forall (u r : nat -> R) d p,
    dot u u = 1 -> 0 < p -> p * p <= dot r r - dot u r * dot u r -> Rabs (semi u r d) <= 1 / (2 * PI * p).
Proof. exact semi_decay. Qed.
Print Assumptions C19_far_surface_wake_leg_induction_bounded_by_inverse_distance.

(* ---- the MPhys wrapper chain connects the same variables as AeroPoint (Real/WiringIso.v): a renaming of system paths
   (solver.solver. -> aero.aero_states., funcs.<surface>. -> aero.<surface>_perf., ivc.angle_of_attack -> flow.alpha, ...) maps
   the data-flow graph of the canonical MPhys model onto that of the canonical AeroPoint model, connection for connection
   (123 of them); outside the correspondence are only the (de)multiplexers and the t_over_c input of the drag estimates.
   Both graphs are regenerated from the live OpenMDAO problems on every run (C19_wiring_of_*_is_the_reviewed_one). ---- *)
From Coq Require Import String Bool.
From OAS Require Import WiringIso.
Theorem C19_mphys_wiring_is_aeropoint_wiring :
  subset image core_aero = true /\ subset core_aero image = true /\
  List.length core_mphys = List.length core_aero /\ (0 < List.length core_mphys)%nat.
Proof. exact mphys_wiring_is_aeropoint_wiring. Qed.
Print Assumptions C19_mphys_wiring_is_aeropoint_wiring.

Theorem C19_mphys_compressible_wiring_contains_aeropoint_wiring :
  subset core_aero_c image_c = true /\
  forallb (fun x => orb (existsb (pair_eqb x) core_aero_c) (contains "tail" (fst x))) image_c = true /\
  (0 < List.length core_aero_c)%nat.
Proof. exact mphys_compressible_wiring_contains_aeropoint_wiring. Qed.
Print Assumptions C19_mphys_compressible_wiring_contains_aeropoint_wiring.
