(* C18 — viscous and wave drag estimates are well-behaved and discretisation-consistent.
   Property theorems only; proofs in Real/DragProofs.v and Real/DragMixed.v. *)
From Coq Require Import Reals Arith Lra.
From OAS Require Import Scalar Rops Sums Drag DragProofs DragMixed.
Open Scope R_scope.

Theorem C18_estimates_zero_when_off :
  (forall np sym k cmax re M S widths lsp lengths toc,
      viscous_CDv np sym k cmax re M S widths lsp lengths toc false = 0) /\
  (forall np sym M CL widths lsp chords toc sd,
      wave_CDw np sym M CL widths lsp chords toc sd false = 0).
Proof. split; intros; reflexivity. Qed.
Print Assumptions C18_estimates_zero_when_off.

(* viscous drag is positive: any number of strips, laminar fraction in [0,1], chord Reynolds
   numbers of the turbulent run > 1 and of the laminar run > e^2.58 (the property asks > 1e3) *)
Theorem C18_CDv_positive :
  forall np sym k cmax re M S_ref (widths lsp lengths toc : nat -> R),
    (0 < np)%nat -> 0 <= k -> k <= 1 -> 0 < cmax -> 0 < M -> 0 < S_ref ->
    (forall j, (j < np)%nat -> 0 < widths j) ->
    (forall j, (j < np)%nat -> 0 < vd_chord lengths j) ->
    (forall j, (j < np)%nat -> 0 <= toc j) ->
    (forall j, (j < np)%nat -> 1 < re * vd_chord lengths j) ->
    (forall j, (j < np)%nat -> 0 < k -> 258 / 100 <= ln (re * vd_chord lengths j * k)) ->
    0 < viscous_CDv np sym k cmax re M S_ref widths lsp lengths toc true.
Proof. intros; apply CDv_pos; assumption. Qed.
Print Assumptions C18_CDv_positive.

(* the inequality behind it: the turbulent friction removed over the laminar run never exceeds
   the full-chord turbulent friction *)
Theorem C18_transition_inequality :
  forall M k x, 0 < k -> k <= 1 -> 0 < x -> 258 / 100 <= ln (x * k) ->
    k * cd_turb M (x * k) <= cd_turb M x.
Proof. exact turb_scaled_le. Qed.
Print Assumptions C18_transition_inequality.

Theorem C18_CDv_increasing_in_thickness :
  forall np sym k cmax re M S_ref (widths lsp lengths toc1 toc2 : nat -> R),
    (0 < np)%nat -> 0 <= k -> k <= 1 -> 0 < cmax -> 0 < M -> 0 < S_ref ->
    (forall j, (j < np)%nat -> 0 < widths j) ->
    (forall j, (j < np)%nat -> 0 < vd_chord lengths j) ->
    (forall j, (j < np)%nat -> 1 < re * vd_chord lengths j) ->
    (forall j, (j < np)%nat -> 0 < k -> 258 / 100 <= ln (re * vd_chord lengths j * k)) ->
    (forall j, (j < np)%nat -> 0 <= toc1 j < toc2 j) ->
    viscous_CDv np sym k cmax re M S_ref widths lsp lengths toc1 true
    < viscous_CDv np sym k cmax re M S_ref widths lsp lengths toc2 true.
Proof. exact CDv_increasing_in_toc. Qed.
Print Assumptions C18_CDv_increasing_in_thickness.

(* decreasing in Reynolds number for EVERY laminar fraction 0 <= k_lam <= 1.  For a mixed surface (0 < k_lam < 1) the
   hypothesis is ln (Re_c k_lam) >= 3.58, i.e. a laminar-run chord Reynolds number above e^3.58 ~ 36 (the property
   quantifies over > 1e3); the proof of the mixed case is by the mean value theorem (Real/DragMixed.v) *)
Theorem C18_CDv_decreasing_in_Re :
  forall np sym k cmax re1 re2 M S_ref (widths lsp lengths toc : nat -> R),
    (0 < np)%nat -> 0 <= k -> k <= 1 -> 0 < cmax -> 0 < M -> 0 < S_ref ->
    (forall j, (j < np)%nat -> 0 < widths j) ->
    (forall j, (j < np)%nat -> 0 < vd_chord lengths j) ->
    (forall j, (j < np)%nat -> 0 <= toc j) ->
    (forall j, (j < np)%nat -> 1 < re1 * vd_chord lengths j) ->
    (forall j, (j < np)%nat -> 0 < k < 1 -> 358 / 100 <= ln (re1 * vd_chord lengths j * k)) ->
    0 < re1 -> re1 < re2 ->
    viscous_CDv np sym k cmax re2 M S_ref widths lsp lengths toc true
    < viscous_CDv np sym k cmax re1 M S_ref widths lsp lengths toc true.
Proof. exact CDv_decreasing_in_Re. Qed.
Print Assumptions C18_CDv_decreasing_in_Re.

(* the chord-Reynolds-number hypothesis of the mixed case is met by a laminar-run Reynolds number of 1e3 *)
Example C18_mixed_hypothesis_met_at_1e3 : 358 / 100 <= ln 1000.
Proof.
  assert (H2 : 2 < ln 10).
  { rewrite <- (ln_exp 2). apply ln_increasing; [apply exp_pos|].
    replace 2 with (1 + 1) by lra. rewrite exp_plus. pose proof exp_le_3. pose proof (exp_pos 1). nra. }
  replace 1000 with (10 * (10 * 10)) by lra. rewrite !ln_mult by lra. lra.
Qed.

(* wave drag: zero up to the crest-critical Mach number, 0 <= CDw <= 20 (M - Mcrit)^4 everywhere
   (value and slope vanish at the onset), strictly increasing beyond it, non-decreasing in lift *)
Theorem C18_CDw_zero_below_onset :
  forall np CL widths lsp chords toc M,
    M <= wd_Mcrit np CL widths lsp chords toc -> wd_core np M CL widths lsp chords toc = 0.
Proof. exact CDw_zero_below. Qed.
Print Assumptions C18_CDw_zero_below_onset.

Theorem C18_CDw_smooth_onset :
  forall np CL widths lsp chords toc M,
    let Mc := wd_Mcrit np CL widths lsp chords toc in
    0 <= wd_core np M CL widths lsp chords toc <= 20 * ((M - Mc) * (M - Mc) * ((M - Mc) * (M - Mc))).
Proof. exact CDw_onset_bound. Qed.
Print Assumptions C18_CDw_smooth_onset.

Theorem C18_CDw_increasing_in_Mach :
  forall np CL widths lsp chords toc M1 M2,
    wd_Mcrit np CL widths lsp chords toc <= M1 -> M1 < M2 ->
    wd_core np M1 CL widths lsp chords toc < wd_core np M2 CL widths lsp chords toc.
Proof. exact CDw_increasing_in_M. Qed.
Print Assumptions C18_CDw_increasing_in_Mach.

Theorem C18_CDw_nondecreasing_in_lift :
  forall np M CL1 CL2 widths lsp chords toc,
    0 < wd_avg_cos np widths lsp chords -> CL1 < CL2 ->
    wd_core np M CL1 widths lsp chords toc <= wd_core np M CL2 widths lsp chords toc.
Proof. exact CDw_nondecreasing_in_CL. Qed.
Print Assumptions C18_CDw_nondecreasing_in_lift.

(* discretisation consistency for a constant-chord, constant-sweep, constant-thickness wing:
   independent of the number of strips and of their widths *)
Theorem C18_CDv_mesh_independent :
  forall np sym k cmax re M (widths lsp lengths toc : nat -> R) c kap tau,
    (forall j, (j <= np)%nat -> lengths j = c) ->
    (forall j, (j < np)%nat -> widths j / lsp j = kap) ->
    (forall j, (j < np)%nat -> toc j = tau) ->
    c <> 0 -> rsum np widths <> 0 ->
    viscous_CDv np sym k cmax re M ((if sym then 2 else 1) * (c * rsum np widths)) widths lsp lengths toc true
    = 2 * vd_cd k M (re * c) * vd_FF cmax M tau kap.
Proof. exact CDv_mesh_independent. Qed.
Print Assumptions C18_CDv_mesh_independent.

Theorem C18_CDw_mesh_independent :
  forall np CL (widths lsp chords toc : nat -> R) c kap tau,
    (forall j, (j <= np)%nat -> chords j = c) ->
    (forall j, (j < np)%nat -> widths j / lsp j = kap) ->
    (forall j, (j < np)%nat -> toc j = tau) ->
    c <> 0 -> rsum np widths <> 0 ->
    wd_Mcrit np CL widths lsp chords toc = wd_MDD_of CL kap tau - wd_crest.
Proof. exact Mcrit_mesh_independent. Qed.
Print Assumptions C18_CDw_mesh_independent.

Theorem C18_total_drag_is_sum :
  forall CDi CDv CDw CD0 : R, total_drag CDi CDv CDw CD0 = CDi + CDv + CDw + CD0.
Proof. reflexivity. Qed.
Print Assumptions C18_total_drag_is_sum.

(* non-vacuity of the Reynolds-number hypotheses: re = 1e6 /m, chord 1 m, k_lam = 0.05 *)
Example C18_hypotheses_satisfiable : 1 < 1000000 * 1 /\ 258 / 100 <= ln (1000000 * 1 * (5 / 100)).
Proof.
  split; [lra|]. replace (1000000 * 1 * (5 / 100)) with 50000 by lra.
  apply Rle_trans with (ln (exp 3)); [rewrite ln_exp; lra|].
  left. apply ln_increasing; [apply exp_pos|]. pose proof exp_le_3. 
  replace 3 with (1 + 1 + 1) by lra. rewrite !exp_plus. pose proof (exp_pos 1).
  assert (exp 1 * exp 1 <= 9) by nra. assert (exp 1 * exp 1 * exp 1 <= 27) by nra. lra.
Qed.

