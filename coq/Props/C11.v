(* C11 — load and displacement transfer conserve force and moment; rigid motion is exact.
   Property theorems only; proofs live in Real/TransferProofs.v. *)
From Coq Require Import Reals Arith.
From Coquelicot Require Import Coquelicot.
From OAS Require Import Scalar Rops Sums Transfer Constants TransferProofs.
Open Scope R_scope.

(* total nodal force = total panel force, for every nx = S npx, ny = S npy, every force field *)
Theorem C11_load_transfer_force_conserved :
  forall (npx npy : nat) (F : nat -> nat -> nat -> R) (d : nat),
    rsum (S npy) (fun j => lt_force npx npy F j d)
    = rsum npx (fun i => rsum npy (fun j => F i j d)).
Proof. exact lt_force_conserved. Qed.
Print Assumptions C11_load_transfer_force_conserved.

(* total moment of the nodal loads (forces at the structural nodes + nodal moments) about ANY
   point p = total moment of the panel forces acting at the panel aerodynamic centres *)
Theorem C11_load_transfer_moment_conserved :
  forall (npx npy : nat) (w1 w2 : R) (mesh F : nat -> nat -> nat -> R) (p : nat -> R) (d : nat),
    (d < 3)%nat ->
    rsum (S npy) (fun j =>
        cross (vsub (lt_spts npx w2 mesh j) p) (lt_force npx npy F j) d
        + lt_moment npx npy w1 w2 mesh F j d)
    = rsum npx (fun i => rsum npy (fun j => cross (vsub (lt_apts w1 mesh i j) p) (F i j) d)).
Proof. exact lt_moment_conserved. Qed.
Print Assumptions C11_load_transfer_moment_conserved.

(* ... and those centres are the quarter-chord force points for the code's w1 (generated from the source) *)
Theorem C11_load_transfer_centres_are_force_points :
  forall mesh i j d, lt_apts gen_lt_w1 mesh i j d = force_pts mesh i j d.
Proof. exact lt_apts_code_is_force_pts. Qed.
Print Assumptions C11_load_transfer_centres_are_force_points.

Theorem C11_mesh_point_forces_force_conserved :
  forall (npx npy : nat) (F : nat -> nat -> nat -> R) (d : nat),
    rsum (S npx) (fun i => rsum (S npy) (fun j =>
        mesh_point_forces npx npy gen_mpf_le_wt gen_mpf_te_wt F i j d))
    = rsum npx (fun i => rsum npy (fun j => F i j d)).
Proof. exact mpf_force_conserved_code. Qed.
Print Assumptions C11_mesh_point_forces_force_conserved.

Theorem C11_mesh_point_forces_moment_conserved :
  forall (npx npy : nat) (mesh F : nat -> nat -> nat -> R) (p : nat -> R) (d : nat),
    (d < 3)%nat ->
    rsum (S npx) (fun i => rsum (S npy) (fun j =>
        cross (vsub (mesh i j) p) (mesh_point_forces npx npy gen_mpf_le_wt gen_mpf_te_wt F i j) d))
    = rsum npx (fun i => rsum npy (fun j => cross (vsub (force_pts mesh i j) p) (F i j) d)).
Proof. exact mpf_moment_conserved_code. Qed.
Print Assumptions C11_mesh_point_forces_moment_conserved.

Theorem C11_disp_zero_identity :
  forall mesh disp npx w i j d,
    (forall c, disp j c = 0) -> def_mesh_group npx w mesh disp i j d = mesh i j d.
Proof. exact disp_zero_identity. Qed.
Print Assumptions C11_disp_zero_identity.

Theorem C11_disp_translation_exact :
  forall mesh disp npx w i j d,
    disp j 3%nat = 0 -> disp j 4%nat = 0 -> disp j 5%nat = 0 ->
    def_mesh_group npx w mesh disp i j d = mesh i j d + disp j d.
Proof. exact disp_translation_exact. Qed.
Print Assumptions C11_disp_translation_exact.

(* to first order a rotation vector r turns the arm from the structural node to the mesh point by r x arm *)
Theorem C11_disp_rotation_first_order :
  forall (r arm : nat -> R) d, (d < 3)%nat ->
    rsum 3 (fun k => r k * rsum 3 (fun b => transf_d 0 0 0 d b k * arm b)) = cross r arm d.
Proof. exact disp_rotation_first_order. Qed.
Print Assumptions C11_disp_rotation_first_order.

(* ... where transf_d is the derivative of the transformation matrix (all angles) *)
Theorem C11_transf_d_is_derivative :
  forall (rx ry rz : R) (a b : nat),
    is_derive (fun t : R => transf t ry rz a b) rx (transf_d rx ry rz a b 0%nat) /\
    is_derive (fun t : R => transf rx t rz a b) ry (transf_d rx ry rz a b 1%nat) /\
    is_derive (fun t : R => transf rx ry t a b) rz (transf_d rx ry rz a b 2%nat).
Proof. exact transf_d_is_derivative. Qed.
Print Assumptions C11_transf_d_is_derivative.

