(* C10_ties.v - GENERATED once by harness/gen_ties.py.  Translator ties of C10: structural facts of the code that the models and
   oracles of this property rest on, regenerated from /repo on every run, equal the reviewed ones:
     - group wiring (which output feeds which input, as OpenMDAO resolves it) of the canonical models of: SpatialBeamAlone
     - unit contract (declared units of every input / output) of the classes in: structures
     - option defaults of the classes in: structures
   An edit that re-wires a group, drops / changes a unit or changes a default in these areas breaks the obligation; the oracles of
   the property then look for the failing input. *)
From Coq Require Import String List Bool.
From OAS Require Import Wiring WiringReviewed IOUnits IOUnitsReviewed OptionDefaults OptionDefaultsReviewed Tie_wiring_SpatialBeamAlone Tie_units_structures Tie_options_structures.
Import ListNotations.

Theorem C10_wiring_of_SpatialBeamAlone_models_is_the_reviewed_one :
  wiring_family_SpatialBeamAlone gen_wiring = wiring_family_SpatialBeamAlone reviewed_wiring /\ wiring_family_SpatialBeamAlone reviewed_wiring <> [].
Proof. split; [exact wiring_SpatialBeamAlone_reviewed | exact wiring_SpatialBeamAlone_nonempty]. Qed.
Print Assumptions C10_wiring_of_SpatialBeamAlone_models_is_the_reviewed_one.

Theorem C10_unit_contract_of_structures_is_the_reviewed_one :
  units_dir_structures gen_io_units = units_dir_structures reviewed_io_units /\ units_dir_structures reviewed_io_units <> [].
Proof. split; [exact units_structures_reviewed | exact units_structures_nonempty]. Qed.
Print Assumptions C10_unit_contract_of_structures_is_the_reviewed_one.

Theorem C10_option_defaults_of_structures_are_the_reviewed_ones :
  options_dir_structures gen_option_defaults = options_dir_structures reviewed_option_defaults /\ options_dir_structures reviewed_option_defaults <> [].
Proof. split; [exact options_structures_reviewed | exact options_structures_nonempty]. Qed.
Print Assumptions C10_option_defaults_of_structures_are_the_reviewed_ones.
