(* C07 — mirror-image configurations give mirror-image results.
   Property theorems only; proofs in Real/MirrorProofs.v, Real/Reflect.v, Real/SymProofs.v. *)
From Coq Require Import Reals Arith.
From OAS Require Import Scalar Rops Sums Stress Vec3 Aero VLM AeroProofs Reflect SymProofs StressProofs MirrorProofs.
Open Scope R_scope.

(* aerodynamic building blocks of mirror covariance (any sizes, any geometry) *)
Theorem C07_mirrored_ring_and_wake :
  forall (A B C D P : nat -> R) a d, (d < 3)%nat ->
    ring4 (My B) (My A) (My D) (My C) (My P) d = My (ring4 A B C D P) d /\
    wake2 (wake_u a) (My D) (My C) (My P) d = My (wake2 (wake_u a) C D P) d.
Proof. intros; split; [apply ring_mirror_symmetric | apply wake_mirror_symmetric]; assumption. Qed.
Print Assumptions C07_mirrored_ring_and_wake.

Theorem C07_onset_flow_mirror :
  forall (a b v : R) (omega cg pt : nat -> R) d, (d < 3)%nat ->
    freestream a (- b) v d = My (freestream a b v) d /\
    rot_vel (pseudo_mirror omega) (My cg) (My pt) d = My (rot_vel omega cg pt) d /\
    pseudo_mirror omega d = (if (d =? 1)%nat then omega d else - omega d).
Proof. intros; split; [apply freestream_mirror | split; [apply rot_vel_mirror | apply pseudo_mirror_def]]; assumption. Qed.
Print Assumptions C07_onset_flow_mirror.

Theorem C07_panel_force_mirror :
  forall rho (hs : nat -> R) (vel bv vel' bv' : nat -> nat -> R) p p' d, (d < 3)%nat ->
    (forall k, (k < 3)%nat -> vel' p' k = My (vel p) k) -> (forall k, (k < 3)%nat -> bv' p' k = - My (bv p) k) ->
    panel_force rho (fun _ => hs p) vel' bv' p' d = My (panel_force rho (fun _ => hs p) vel bv p) d.
Proof. exact panel_force_mirror. Qed.
Print Assumptions C07_panel_force_mirror.

Theorem C07_lift_drag_unchanged_moment_pseudo_mirrored :
  forall np a b (F F' : nat -> nat -> R),
    (forall p k, (p < np)%nat -> (k < 3)%nat -> F' p k = My (F p) k) ->
    lift np false a F' = lift np false a F /\ drag np false a (- b) F' = drag np false a b F /\
    (forall (r G : nat -> R) d, (d < 3)%nat -> cross (My r) (My G) d = pseudo_mirror (cross r G) d).
Proof. intros np a b F F' H. destruct (lift_drag_mirror np a b F F' H). split; [assumption | split; [assumption | intros; apply moment_mirror; assumption]]. Qed.
Print Assumptions C07_lift_drag_unchanged_moment_pseudo_mirrored.

Theorem C07_mirror_panel_normals :
  forall (m m' : nat -> nat -> nat -> R) i j j' d, (d < 3)%nat ->
    (forall k, (k < 3)%nat -> m' i (S j') k = My (m i j) k) -> (forall k, (k < 3)%nat -> m' i j' k = My (m i (S j)) k) ->
    (forall k, (k < 3)%nat -> m' (S i) (S j') k = My (m (S i) j) k) -> (forall k, (k < 3)%nat -> m' (S i) j' k = My (m (S i) (S j)) k) ->
    g_ncross m' i j' d = My (g_ncross m i j) d.
Proof. exact ncross_mirror. Qed.
Print Assumptions C07_mirror_panel_normals.

(* tube stresses: the mirrored element has the same axial / bending strain measures and the opposite
   torsion, which enters squared *)
Theorem C07_tube_stress_mirror_invariant :
  forall E G r L du drx dry drz s,
    tube_vm_local E G r L du (- drx) dry drz s = tube_vm_local E G r L du drx dry drz s.
Proof. exact tube_vm_torsion_sign. Qed.
Print Assumptions C07_tube_stress_mirror_invariant.

(* wingbox stresses: the current code recovers the bending moment at one fixed element end; for the mirror
   image of an element this is the other physical end, and the magnitudes differ (KNOWN_FINDINGS.json) *)
Theorem C07_wingbox_end_moment_under_mirror :
  forall nodes disp e u0y r0z u1y r1z L,
    wb_mz nodes disp e = wb_mz_loc (u0 disp e (yl nodes e)) (r0 disp e (zl nodes e)) (u1 disp e (yl nodes e)) (r1 disp e (zl nodes e)) (eL nodes e) /\
    wb_mz_loc u1y (- r1z) u0y (- r0z) L = - (6 * u0y + 4 * r0z * L - 6 * u1y + 2 * r1z * L).
Proof. intros; split; [apply wb_mz_is_loc | apply wb_end_moment_mirror]. Qed.
Print Assumptions C07_wingbox_end_moment_under_mirror.

Theorem C07_wingbox_stress_mirror_refuted :
  exists u0y r0z u1y r1z L, Rabs (wb_mz_loc u1y (- r1z) u0y (- r0z) L) <> Rabs (wb_mz_loc u0y r0z u1y r1z L).
Proof. exact wingbox_stress_mirror_refuted. Qed.
Print Assumptions C07_wingbox_stress_mirror_refuted.

(* geometry design variables on right-half symmetric meshes (root at spanwise index 0): the model of the
   current code — which the correspondence streams show to be the code's behaviour — violates the
   documented effect (recorded findings F05-Sweep, F05-Dihedral, F05-Taper) *)
From OAS Require Import Geom GeomProofs.
Theorem C07_sweep_dihedral_right_half_refuted :
  forall npy (m : nat -> nat -> nat -> R) b ang i,
    m 0%nat 0%nat 1%nat = 0 -> m 0%nat npy 1%nat = b -> 0 < b -> 0 < tan (PI / 180 * ang) ->
    (sweep_mesh npy true ang m i 0%nat 0%nat - m i 0%nat 0%nat = b * tan (PI / 180 * ang) /\
     sweep_mesh npy true ang m i npy 0%nat = m i npy 0%nat /\ sweep_mesh npy true ang m i 0%nat 0%nat <> m i 0%nat 0%nat) /\
    (dihedral_mesh npy true ang m i 0%nat 2%nat - m i 0%nat 2%nat = b * tan (PI / 180 * ang) /\
     dihedral_mesh npy true ang m i npy 2%nat = m i npy 2%nat /\ dihedral_mesh npy true ang m i 0%nat 2%nat <> m i 0%nat 2%nat).
Proof. intros; split; [eapply sweep_right_half_refuted | eapply dihedral_right_half_refuted]; eassumption. Qed.
Print Assumptions C07_sweep_dihedral_right_half_refuted.

Theorem C07_taper_right_half_refuted :
  forall npx npy rap t (m : nat -> nat -> nat -> R) j,
    0 <= ref_axis npx rap m j 1%nat -> 0 < ref_axis npx rap m npy 1%nat - ref_axis npx rap m 0%nat 1%nat ->
    taper_factor npx npy true rap t m j = 1.
Proof. exact taper_right_half_refuted. Qed.
Print Assumptions C07_taper_right_half_refuted.

(* WingboxGeometry: the mirror image of a wing (y negated, spanwise node order reversed) has, element for
   element, the same streamwise chord, FEM chord and FEM twist *)
From OAS Require Import Wingbox WingboxProofs.
Theorem C07_wingbox_geometry_mirror :
  forall (nx1 : nat) (m m' : nat -> nat -> nat -> R) (xu0 yu0 yl0 xun yun yln : R) (e e' : nat),
    mirrored_node nx1 m m' (S e') e -> mirrored_node nx1 m m' e' (S e) ->
    wg_sw nx1 m' e' = wg_sw nx1 m e /\
    wg_fem_chord nx1 m' xu0 yu0 yl0 xun yun yln e' = wg_fem_chord nx1 m xu0 yu0 yl0 xun yun yln e /\
    wg_fem_twist nx1 m' xu0 yu0 yl0 xun yun yln e' = wg_fem_twist nx1 m xu0 yu0 yl0 xun yun yln e.
Proof. exact wingbox_geometry_mirror. Qed.
Print Assumptions C07_wingbox_geometry_mirror.

(* structure: GIVEN the element-level covariance (matrix of the mirrored element = matrix of the element with its nodes
   exchanged and the reflected DOFs' signs on both sides - checked on the implementation's element matrices by the oracle
   SpatialBeamAlone.element-matrices-mirror), every row of the mirrored beam's assembled matrix applied to the mirrored
   displacements is the reflected row of the original: nodal forces and moments are reflected; any number of elements *)
From OAS Require Import Beam BeamCantilever.
Theorem C07_structure_assembled_system_mirror_covariant :
  forall (ne : nat) (k k' : nat -> nat -> nat -> R) (u : nat -> R),
    (forall e p q, (e < ne)%nat -> (p < 12)%nat -> (q < 12)%nat -> k' (ne - 1 - e)%nat p q = sg p * sg q * k e (sw p) (sw q)) ->
    forall a r, (a <= ne)%nat -> (r < 6)%nat ->
    rsum (6 * S ne) (fun q => assembled ne k' (ne - a) r (q / 6) (q mod 6) * um ne u q)
    = sg r * rsum (6 * S ne) (fun q => assembled ne k a r (q / 6) (q mod 6) * u q).
Proof. exact assembled_mirror. Qed.
Print Assumptions C07_structure_assembled_system_mirror_covariant.

(* ---- the element-level covariance PROVED from the element model (Real/ElementMirror.v): direction cosines of the mirrored
   element with exchanged nodes are x' = - My x, y' = My y, z' = My z; reversing the axis of the textbook frame element is
   the congruence with (node exchange, rotation-DOF signs); the chain LocalStiff -> Permuted -> Transform -> Transformed of
   the mirrored beam therefore gives the exchanged / sign-changed matrices, for tube and wing-box section data alike ---- *)
From OAS Require Import ElementMirror.
Theorem C07_structure_element_matrices_mirror_covariant :
  forall ne nodes E G A J Iy Iz e p q,
    (e < ne)%nat -> (p < 12)%nat -> (q < 12)%nat -> elem_length nodes e <> 0 ->
    beam_kloc (nodesM ne nodes) E G (revE ne A) (revE ne J) (revE ne Iy) (revE ne Iz) (ne - 1 - e) p q
    = sg p * sg q * beam_kloc nodes E G A J Iy Iz e (sw p) (sw q).
Proof. exact beam_elements_mirror. Qed.
Print Assumptions C07_structure_element_matrices_mirror_covariant.

(* hence, with no hypothesis on the element matrices: the assembled system of the mirrored beam maps mirrored
   displacements to mirrored nodal forces and moments, any number of elements of non-zero length *)
Theorem C07_structure_mirrored_beam_gives_mirrored_forces :
  forall ne nodes E G A J Iy Iz (u : nat -> R) a r,
    (forall e, (e < ne)%nat -> elem_length nodes e <> 0) -> (a <= ne)%nat -> (r < 6)%nat ->
    rsum (6 * S ne) (fun q => assembled ne (beam_kloc (nodesM ne nodes) E G (revE ne A) (revE ne J) (revE ne Iy) (revE ne Iz))
                                        (ne - a) r (q / 6) (q mod 6) * um ne u q)
    = sg r * rsum (6 * S ne) (fun q => assembled ne (beam_kloc nodes E G A J Iy Iz) a r (q / 6) (q mod 6) * u q).
Proof. exact beam_system_mirror. Qed.
Print Assumptions C07_structure_mirrored_beam_gives_mirrored_forces.
