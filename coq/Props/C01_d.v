(* C01 - analytic component derivatives equal the true derivatives.  Property theorems only (statements printed by Coq from the libraries Real/*Deriv.v).  DR g t0 p  :=  g t0 = fst p /\ is_derive g t0 (snd p);  every theorem says: along ANY differentiable curve of the inputs, the dual-number evaluation of the component model gives the value and the derivative - hence every partial derivative (C01_dual_number_tangent_is_the_partial_derivative) and, by composition, every chain of components (part 4) *)
From Coq Require Import Reals ZArith Lra Lia Arith Bool List String.
From Coquelicot Require Import Coquelicot.
From OAS Require Import Scalar Rops Sums Deriv Dual DualProofs Drag DragDeriv Stress StressDeriv StressProofs Transfer TransferDeriv Loads LoadsDeriv Functionals FunctionalsDeriv Aero AeroDeriv PG PGDeriv Beam BeamTables BeamDeriv Geom GeomDeriv Misc MiscDeriv MultiSec MultiSecDeriv Wingbox WingboxDeriv Small SmallDeriv Mphys MphysDeriv.
Open Scope R_scope.

Theorem C01_MomentCoefficient_CM :
  forall (s0 : R -> MSurf) (ss : list (R -> MSurf)) (Cg : R -> nat -> R) (Rho V St : R -> R) 
    (t0 : R) (d0 : MSurf) (ds : list MSurf) (cg : nat -> dual R) (rho v st : dual R) 
    (d : nat),
  DRls (s0 :: ss) t0 (d0 :: ds) ->
  DRv Cg t0 cg ->
  DR Rho t0 rho ->
  DR V t0 v ->
  DR St t0 st ->
  ms_Sref (s0 t0) <> 0 ->
  ohalf * Rho t0 * (V t0 * V t0) * St t0 * ms_MAC (s0 t0) <> 0 ->
  DR (fun t : R => moment_CM (ats t (s0 :: ss)) (Cg t) (Rho t) (V t) (St t) d) t0
    (moment_CM (d0 :: ds) cg rho v st d).
Proof. exact moment_CM_DR. Qed.
Print Assumptions C01_MomentCoefficient_CM.

Theorem C01_CollocationPoints_coll_pts :
  forall (M : R -> nat -> nat -> nat -> R) (t0 : R) (m : nat -> nat -> nat -> dual R),
  DR3 M t0 m -> forall i j d : nat, DR (fun t : R => coll_pts (M t) i j d) t0 (coll_pts m i j d).
Proof. exact coll_pts_DR. Qed.
Print Assumptions C01_CollocationPoints_coll_pts.

Theorem C01_CollocationPoints_force_pts :
  forall (M : R -> nat -> nat -> nat -> R) (t0 : R) (m : nat -> nat -> nat -> dual R),
  DR3 M t0 m -> forall i j d : nat, DR (fun t : R => force_pts_c (M t) i j d) t0 (force_pts_c m i j d).
Proof. exact force_pts_c_DR. Qed.
Print Assumptions C01_CollocationPoints_force_pts.

Theorem C01_CollocationPoints_bound_vecs :
  forall (M : R -> nat -> nat -> nat -> R) (t0 : R) (m : nat -> nat -> nat -> dual R),
  DR3 M t0 m -> forall i j d : nat, DR (fun t : R => bound_vecs (M t) i j d) t0 (bound_vecs m i j d).
Proof. exact bound_vecs_DR. Qed.
Print Assumptions C01_CollocationPoints_bound_vecs.

(* ghost (left / right) and ground image, alpha and height included *)
Theorem C01_VortexMesh :
  forall (npx npy : nat) (sym ground left : bool) (A H : R -> R) (M : R -> nat -> nat -> nat -> R) 
    (t0 : R) (a h : dual R) (m : nat -> nat -> nat -> dual R) (i j d : nat),
  DR A t0 a ->
  DR H t0 h ->
  DR3 M t0 m ->
  DR (fun t : R => vortex_mesh npx npy sym ground left (A t) (H t) (M t) i j d) t0
    (vortex_mesh npx npy sym ground left a h m i j d).
Proof. exact vortex_mesh_DR. Qed.
Print Assumptions C01_VortexMesh.

Theorem C01_GetVectors :
  forall (P : R -> nat -> nat -> R) (V : R -> nat -> nat -> nat -> R) (t0 : R) (p : nat -> nat -> dual R)
    (v : nat -> nat -> nat -> dual R) (e i j d : nat),
  DR2 P t0 p -> DR3 V t0 v -> DR (fun t : R => get_vectors (P t) (V t) e i j d) t0 (get_vectors p v e i j d).
Proof. exact get_vectors_DR. Qed.
Print Assumptions C01_GetVectors.

Theorem C01_vortex_segment_kernel :
  forall (R1 R2 : R -> nat -> R) (t0 : R) (r1 r2 : nat -> dual R) (d : nat),
  DRv R1 t0 r1 ->
  DRv R2 t0 r2 ->
  nz3 (R1 t0) ->
  nz3 (R2 t0) ->
  vtol < Rabs (nrm (R1 t0) * nrm (R2 t0) + dot (R1 t0) (R2 t0)) ->
  DR (fun t : R => fv (R1 t) (R2 t) d) t0 (fv r1 r2 d).
Proof. exact fv_DR. Qed.
Print Assumptions C01_vortex_segment_kernel.

Theorem C01_semi_infinite_filament_kernel :
  forall (U Rr : R -> nat -> R) (t0 : R) (u r : nat -> dual R) (d : nat),
  DRv U t0 u ->
  DRv Rr t0 r ->
  nz3 (Rr t0) -> nrm (Rr t0) - dot (U t0) (Rr t0) <> 0 -> DR (fun t : R => semi (U t) (Rr t) d) t0 (semi u r d).
Proof. exact semi_DR. Qed.
Print Assumptions C01_semi_infinite_filament_kernel.

(* aerodynamics/eval_mtx.py: symmetric folding, ground image, right-wing flip, wake direction alpha *)
Theorem C01_EvalVelMtx :
  forall (npx npy : nat) (sym ground right : bool) (A : R -> R) (V : R -> nat -> nat -> nat -> nat -> R)
    (t0 : R) (a : dual R) (v : nat -> nat -> nat -> nat -> dual R),
  DR A t0 a ->
  DR4 V t0 v ->
  (forall b e i j : nat, ring_ok npx V t0 b e i j) ->
  (forall b e j : nat, trail_ok npx A V t0 b e j) ->
  forall e i j d : nat,
  DR (fun t : R => vel_mtx npx npy sym ground right (A t) (V t) e i j d) t0
    (vel_mtx npx npy sym ground right a v e i j d).
Proof. exact vel_mtx_DR. Qed.
Print Assumptions C01_EvalVelMtx.

Theorem C01_VLMGeometry_lengths_spanwise :
  forall (npx : nat) (M : R -> nat -> nat -> nat -> R) (t0 : R) (m : nat -> nat -> nat -> dual R),
  DR3 M t0 m ->
  forall j : nat,
  0 < sq3 (fun d : nat => g_qc npx (M t0) (S j) d - g_qc npx (M t0) j d) ->
  DR (fun t : R => g_lengths_spanwise npx (M t) j) t0 (g_lengths_spanwise npx m j).
Proof. exact g_lengths_spanwise_DR. Qed.
Print Assumptions C01_VLMGeometry_lengths_spanwise.

Theorem C01_VLMGeometry_widths :
  forall (npx : nat) (M : R -> nat -> nat -> nat -> R) (t0 : R) (m : nat -> nat -> nat -> dual R),
  DR3 M t0 m ->
  forall j : nat,
  0 < osq (g_qc npx (M t0) (S j) 1 - g_qc npx (M t0) j 1) + osq (g_qc npx (M t0) (S j) 2 - g_qc npx (M t0) j 2) ->
  DR (fun t : R => g_widths npx (M t) j) t0 (g_widths npx m j).
Proof. exact g_widths_DR. Qed.
Print Assumptions C01_VLMGeometry_widths.

Theorem C01_VLMGeometry_lengths :
  forall (npx : nat) (M : R -> nat -> nat -> nat -> R) (t0 : R) (m : nat -> nat -> nat -> dual R),
  DR3 M t0 m ->
  forall j : nat,
  (forall i : nat, (i < npx)%nat -> 0 < sq3 (fun d : nat => M t0 (S i) j d - M t0 i j d)) ->
  DR (fun t : R => g_lengths npx (M t) j) t0 (g_lengths npx m j).
Proof. exact g_lengths_DR. Qed.
Print Assumptions C01_VLMGeometry_lengths.

