(* C08 — ground effect equals the method of images and vanishes far from the ground.
   Property theorems only; proofs in Real/Reflect.v, Real/SymProofs.v, Real/AeroProofs.v. *)
From Coq Require Import Reals Arith.
From OAS Require Import Scalar Rops Sums Stress Vec3 Aero VLM AeroProofs Reflect SymProofs.
Open Scope R_scope.

(* the ground plane: unit normal n = (sin a, 0, -cos a), parallel to the wake / free stream at zero
   sideslip, through the point h n at distance h from (and below) the origin *)
Theorem C08_ground_plane :
  forall a_deg h : R,
    let a := a_deg * PI / 180 in
    dot (@plane_n R Rops a) (plane_n a) = 1 /\
    dot (wake_u a_deg) (plane_n a) = 0 /\
    dot (fun k => h * @plane_n R Rops a k) (plane_n a) = h /\
    (0 < h -> - PI / 2 < a < PI / 2 -> h * @plane_n R Rops a 2%nat < 0).
Proof.
  intros a_deg h a. split; [apply ground_plane_normal_unit|]. split; [apply ground_plane_parallel_to_stream|].
  split; [apply ground_plane_point | apply ground_plane_below_origin].
Qed.
Print Assumptions C08_ground_plane.

(* the code's mirrored mesh is the reflection about that plane; points of the plane are fixed *)
Theorem C08_reflection_about_ground_plane :
  forall a h (p : nat -> R) d,
    reflect a h p d = refl (plane_n a) (fun k => p k - h * plane_n a k) d + h * plane_n a d /\
    (dot (fun k => p k - h * plane_n a k) (plane_n a) = 0 -> reflect a h p d = p d).
Proof. intros; split; [apply reflect_is_plane_reflection | apply reflect_fixes_plane]. Qed.
Print Assumptions C08_reflection_about_ground_plane.

(* reflections are involutive isometries that flip the cross product (any unit normal) *)
Theorem C08_reflection_is_improper_isometry :
  forall (n a b : nat -> R) d, (d < 3)%nat -> dot n n = 1 ->
    dot (refl n a) (refl n b) = dot a b /\ refl n (refl n a) d = a d /\
    cross (refl n a) (refl n b) d = - refl n (cross a b) d.
Proof. intros; split; [apply refl_dot | split; [apply refl_involutive | apply refl_cross]]; assumption. Qed.
Print Assumptions C08_reflection_is_improper_isometry.

(* the image block of the vortex mesh is the reflection of the surface's own vortex lattice
   (quarter-chord blending commutes with the reflection) *)
Theorem C08_image_lattice_is_reflected_lattice :
  forall npx npy left a h (m : nat -> nat -> nat -> R) i j d, (i <= npx)%nat ->
    vortex_mesh npx npy true true left a h m (i + S npx) j d
    = reflect a h (vortex_mesh npx npy true true left a h m i j) d.
Proof. exact image_lattice_is_reflection. Qed.
Print Assumptions C08_image_lattice_is_reflected_lattice.

(* the image rings are counted with strength -1 *)
Theorem C08_image_strength_minus_one :
  forall npx npy alpha vec e i j d, (S i <> npx)%nat ->
    vel_mtx npx npy true true false alpha vec e i j d
    = (ring_raw npx vec 0 e i j d + ring_raw npx vec 0 e i (mirror_j npy j) d)
      - (ring_raw npx vec 1 e i j d + ring_raw npx vec 1 e i (mirror_j npy j) d).
Proof. exact ground_image_strength. Qed.
Print Assumptions C08_image_strength_minus_one.

(* an image ring (same traversal order) induces at the reflected point minus the reflected velocity,
   i.e. what a reflected ring of strength -1 induces; hence ring + image leave the plane impermeable *)
Theorem C08_image_ring_velocity :
  forall (n A B C D P : nat -> R) d, (d < 3)%nat -> dot n n = 1 ->
    ring4 (refl n A) (refl n B) (refl n C) (refl n D) (refl n P) d = - refl n (ring4 A B C D P) d.
Proof. exact ring4_image. Qed.
Print Assumptions C08_image_ring_velocity.

Theorem C08_ground_plane_impermeable :
  forall (n A B C D P : nat -> R), dot n n = 1 -> dot P n = 0 ->
    dot (fun d => ring4 A B C D P d - ring4 (refl n A) (refl n B) (refl n C) (refl n D) P d) n = 0.
Proof. exact image_pair_impermeable. Qed.
Print Assumptions C08_ground_plane_impermeable.



(* ---- far from the ground (Real/KernelDecay.v) ----
   every image vortex is at least 2 h - (extent of the geometry) away from every evaluation point, and its trailing legs,
   parallel to the plane, keep that perpendicular distance: each component of the image block of the influence
   matrices is bounded by 1 / (2 pi distance) per segment / leg, hence tends to zero as the height grows.
   (segments: end vectors at an acute angle, i.e. the point is farther away than the segment is long) *)
From OAS Require Import KernelDecay.
Theorem C08_image_segment_induction_bounded_by_inverse_distance :
  forall (r1 r2 : nat -> R) d h,
    0 < h -> h <= nrm r1 -> h <= nrm r2 -> 0 <= dot r1 r2 -> Rabs (fv r1 r2 d) <= 1 / (2 * PI * h).
Proof. exact fv_decay. Qed.
Print Assumptions C08_image_segment_induction_bounded_by_inverse_distance.

Theorem C08_image_segment_induction_vanishes_far_away :
  forall eps, 0 < eps -> exists H, 0 < H /\
    forall r1 r2 d, H <= nrm r1 -> H <= nrm r2 -> 0 <= dot r1 r2 -> Rabs (fv r1 r2 d) < eps.
Proof. exact fv_vanishes_far_away. Qed.
Print Assumptions C08_image_segment_induction_vanishes_far_away.

Theorem C08_image_wake_leg_induction_bounded_by_inverse_distance :
  forall (u r : nat -> R) d p,
    dot u u = 1 -> 0 < p -> p * p <= dot r r - dot u r * dot u r -> Rabs (semi u r d) <= 1 / (2 * PI * p).
Proof. exact semi_decay. Qed.
Print Assumptions C08_image_wake_leg_induction_bounded_by_inverse_distance.
