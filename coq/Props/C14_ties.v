(* C14_ties.v - GENERATED once by harness/gen_ties.py.  Translator ties of C14: structural facts of the code that the models and
   oracles of this property rest on, regenerated from /repo on every run, equal the reviewed ones:
     - group wiring (which output feeds which input, as OpenMDAO resolves it) of the canonical models of: -
     - unit contract (declared units of every input / output) of the classes in: geometry
   An edit that re-wires a group or drops / changes a unit in these areas breaks the obligation; the oracles of the property
   then look for the failing input. *)
From Coq Require Import String List Bool.
From OAS Require Import Wiring WiringReviewed IOUnits IOUnitsReviewed Tie_units_geometry.
Import ListNotations.

Theorem C14_unit_contract_of_geometry_is_the_reviewed_one :
  units_dir_geometry gen_io_units = units_dir_geometry reviewed_io_units /\ units_dir_geometry reviewed_io_units <> [].
Proof. split; [exact units_geometry_reviewed | exact units_geometry_nonempty]. Qed.
Print Assumptions C14_unit_contract_of_geometry_is_the_reviewed_one.
