(* C14_ties.v - GENERATED once by harness/gen_ties.py.  Translator ties of C14: structural facts of the code that the models and
   oracles of this property rest on, regenerated from /repo on every run, equal the reviewed ones:
     - group wiring (which output feeds which input, as OpenMDAO resolves it) of the canonical models of: -
     - unit contract (declared units of every input / output) of the classes in: geometry
     - option defaults of the classes in: geometry
   An edit that re-wires a group, drops / changes a unit or changes a default in these areas breaks the obligation; the oracles of
   the property then look for the failing input. *)
From Coq Require Import String List Bool.
From OAS Require Import Wiring WiringReviewed IOUnits IOUnitsReviewed OptionDefaults OptionDefaultsReviewed Tie_units_geometry Tie_options_geometry.
Import ListNotations.

Theorem C14_unit_contract_of_geometry_is_the_reviewed_one :
  units_dir_geometry gen_io_units = units_dir_geometry reviewed_io_units /\ units_dir_geometry reviewed_io_units <> [].
Proof. split; [exact units_geometry_reviewed | exact units_geometry_nonempty]. Qed.
Print Assumptions C14_unit_contract_of_geometry_is_the_reviewed_one.

Theorem C14_option_defaults_of_geometry_are_the_reviewed_ones :
  options_dir_geometry gen_option_defaults = options_dir_geometry reviewed_option_defaults /\ options_dir_geometry reviewed_option_defaults <> [].
Proof. split; [exact options_geometry_reviewed | exact options_geometry_nonempty]. Qed.
Print Assumptions C14_option_defaults_of_geometry_are_the_reviewed_ones.
