(* C04 — a half-span symmetric model is equivalent to the full-span model.
   Property theorems only; proofs in Real/SymProofs.v (reflection library: Real/Reflect.v). *)
From Coq Require Import Reals Arith.
From OAS Require Import Scalar Rops Sums Stress Vec3 Aero VLM AeroProofs Reflect SymProofs Drag DragProofs Loads LoadsProofs.
Open Scope R_scope.

(* the symmetric code path = full-span influence of the panel + of its mirror panel (every row,
   with or without ground images) *)
Theorem C04_symmetric_influence_folds_mirror_panel :
  forall npx npy g alpha vec e i j d,
    vel_mtx npx npy true g false alpha vec e i j d
    = vel_mtx npx npy false g false alpha vec e i j d
    + vel_mtx npx npy false g false alpha vec e i (mirror_j npy j) d.
Proof. exact sym_fold. Qed.
Print Assumptions C04_symmetric_influence_folds_mirror_panel.

(* the ghost mesh is the mirror-symmetric full-span mesh PROVIDED the root column lies on y = 0 *)
Theorem C04_ghost_mesh_is_mirror_symmetric :
  forall npy (m : nat -> nat -> nat -> R) i j d, (d < 3)%nat -> (j <= 2 * npy)%nat ->
    m i npy 1%nat = 0 ->
    ghost_mesh npy true m i (2 * npy - j) d = My (ghost_mesh npy true m i j) d.
Proof. exact ghost_left_mirror. Qed.
Print Assumptions C04_ghost_mesh_is_mirror_symmetric.

(* mirrored ring (reversed spanwise order) at the mirrored point induces the mirrored velocity, with
   unchanged strength; same for the wake legs: the influence field of a mirror-symmetric lattice is
   mirror symmetric *)
Theorem C04_mirror_ring_induces_mirror_velocity :
  forall (A B C D P : nat -> R) a d, (d < 3)%nat ->
    ring4 (My B) (My A) (My D) (My C) (My P) d = My (ring4 A B C D P) d /\
    wake2 (wake_u a) (My D) (My C) (My P) d = My (wake2 (wake_u a) C D P) d.
Proof. intros; split; [apply ring_mirror_symmetric | apply wake_mirror_symmetric]; assumption. Qed.
Print Assumptions C04_mirror_ring_induces_mirror_velocity.

Theorem C04_mirror_panel_normals :
  forall (m m' : nat -> nat -> nat -> R) i j j' d, (d < 3)%nat ->
    (forall k, (k < 3)%nat -> m' i (S j') k = My (m i j) k) -> (forall k, (k < 3)%nat -> m' i j' k = My (m i (S j)) k) ->
    (forall k, (k < 3)%nat -> m' (S i) (S j') k = My (m (S i) j) k) -> (forall k, (k < 3)%nat -> m' (S i) j' k = My (m (S i) (S j)) k) ->
    g_ncross m' i j' d = My (g_ncross m i j) d.
Proof. exact ncross_mirror. Qed.
Print Assumptions C04_mirror_panel_normals.

(* a mirror-symmetric linear system: the mirror extension of the solution of the folded half system
   solves the full system (any sizes) *)
Theorem C04_half_solution_extends_to_full :
  forall n1 n2 (A : nat -> nat -> nat -> nat -> R) (b : nat -> nat -> R),
    let sg := fun j => (2 * n2 - 1 - j)%nat in
    (forall pi pj qi qj, (pj < 2 * n2)%nat -> (qj < 2 * n2)%nat -> A pi (sg pj) qi (sg qj) = A pi pj qi qj) ->
    (forall pi pj, (pj < 2 * n2)%nat -> b pi (sg pj) = b pi pj) ->
    forall Gh : nat -> nat -> R,
    (forall pi pj, (pi < n1)%nat -> (pj < n2)%nat ->
        rsum n1 (fun qi => rsum n2 (fun qj => (A pi pj qi qj + A pi pj qi (sg qj)) * Gh qi qj)) = b pi pj) ->
    forall pi pj, (pi < n1)%nat -> (pj < 2 * n2)%nat ->
      rsum n1 (fun qi => rsum (2 * n2) (fun qj => A pi pj qi qj * Gfull n2 Gh qi qj)) = b pi pj.
Proof. intros n1 n2 A b sg HA Hb Gh Hh. apply half_solution_extends; assumption. Qed.
Print Assumptions C04_half_solution_extends_to_full.

(* the explicit factors of two *)
Theorem C04_lift_drag_doubled :
  forall np a b (F : nat -> nat -> R),
    lift np true a F = 2 * lift np false a F /\ drag np true a b F = 2 * drag np false a b F.
Proof. exact symmetric_lift_drag_doubled. Qed.
Print Assumptions C04_lift_drag_doubled.

Theorem C04_mass_counts_both_halves :
  forall nodes ne mrho wwr A,
    structural_mass nodes ne true mrho wwr A = 2 * structural_mass nodes ne false mrho wwr A.
Proof. intros. rewrite !mass_formula. ring. Qed.
Print Assumptions C04_mass_counts_both_halves.

(* wave drag: the area-weighted averages, hence the crest-critical Mach number, of a mirror-symmetric
   full wing equal those of its half ... *)
Theorem C04_Mcrit_half_eq_full :
  forall np CL (widths lsp chords toc : nat -> R),
    (forall j, (j < 2 * np)%nat -> widths (2 * np - 1 - j)%nat = widths j) ->
    (forall j, (j < 2 * np)%nat -> lsp (2 * np - 1 - j)%nat = lsp j) ->
    (forall j, (j < 2 * np)%nat -> toc (2 * np - 1 - j)%nat = toc j) ->
    (forall j, (j <= 2 * np)%nat -> chords (2 * np - j)%nat = chords j) ->
    rsum np (wd_area widths chords) <> 0 ->
    wd_Mcrit (2 * np) CL widths lsp chords toc = wd_Mcrit np CL widths lsp chords toc.
Proof. exact Mcrit_full_eq_half. Qed.
Print Assumptions C04_Mcrit_half_eq_full.

(* ... so the member of the model family WITHOUT the symmetric doubling satisfies the property ... *)
Theorem C04_CDw_half_eq_full :
  forall np CL M (widths lsp chords toc : nat -> R),
    (forall j, (j < 2 * np)%nat -> widths (2 * np - 1 - j)%nat = widths j) ->
    (forall j, (j < 2 * np)%nat -> lsp (2 * np - 1 - j)%nat = lsp j) ->
    (forall j, (j < 2 * np)%nat -> toc (2 * np - 1 - j)%nat = toc j) ->
    (forall j, (j <= 2 * np)%nat -> chords (2 * np - j)%nat = chords j) ->
    rsum np (wd_area widths chords) <> 0 ->
    wave_CDw np true M CL widths lsp chords toc false true
    = wave_CDw (2 * np) false M CL widths lsp chords toc false true.
Proof. exact CDw_half_eq_full. Qed.
Print Assumptions C04_CDw_half_eq_full.

(* ... and the member WITH it (the current code, see KNOWN_FINDINGS.json) is refuted above the onset *)
Theorem C04_CDw_half_refuted :
  forall np CL M (widths lsp chords toc : nat -> R),
    (forall j, (j < 2 * np)%nat -> widths (2 * np - 1 - j)%nat = widths j) ->
    (forall j, (j < 2 * np)%nat -> lsp (2 * np - 1 - j)%nat = lsp j) ->
    (forall j, (j < 2 * np)%nat -> toc (2 * np - 1 - j)%nat = toc j) ->
    (forall j, (j <= 2 * np)%nat -> chords (2 * np - j)%nat = chords j) ->
    rsum np (wd_area widths chords) <> 0 ->
    wd_Mcrit np CL widths lsp chords toc < M ->
    wave_CDw np true M CL widths lsp chords toc true true
    <> wave_CDw (2 * np) false M CL widths lsp chords toc true true.
Proof. exact CDw_half_refuted. Qed.
Print Assumptions C04_CDw_half_refuted.

(* structure: the equilibrium rows of the modelled (left) half of a full-span beam clamped at its centre node are, entry for
   entry, the rows of the half-span beam clamped at its last node - for any number of elements, any element matrices,
   whatever lies to the right of the centre *)
From OAS Require Import Beam BeamCantilever.
Theorem C04_structure_left_half_rows_of_full_model_are_the_half_model_rows :
  forall (ne nf : nat) (kh kf : nat -> nat -> nat -> R) (uh uf : nat -> R), (ne <= nf)%nat ->
    (forall e p q, (e < ne)%nat -> kf e p q = kh e p q) ->
    (forall q, (q < 6 * S ne)%nat -> uf q = uh q) ->
    forall a r, (a < ne)%nat -> (r < 6)%nat ->
    rsum (6 * S nf) (fun q => assembled nf kf a r (q / 6) (q mod 6) * uf q)
    = rsum (6 * S ne) (fun q => assembled ne kh a r (q / 6) (q mod 6) * uh q).
Proof. exact full_left_rows_are_half_rows. Qed.
Print Assumptions C04_structure_left_half_rows_of_full_model_are_the_half_model_rows.

(* inertial loads on the modelled half: the half model carries half of the fuel INCLUDING the reserve in half the tank volume *)
Theorem C04_fuel_loads_of_the_half_model_are_the_left_half_of_the_full_model :
  forall nodes ne g lf fm res (vols : nat -> R) j c,
    (j < ne)%nat -> rsum ne vols <> 0 -> rsum (2 * ne) vols = 2 * rsum ne vols ->
    fuel_weight_loads nodes (2 * ne) false g lf fm res vols j c = fuel_weight_loads nodes ne true g lf fm res vols j c.
Proof. exact fuel_loads_half_is_left_half_of_full. Qed.
Print Assumptions C04_fuel_loads_of_the_half_model_are_the_left_half_of_the_full_model.

Theorem C04_structural_weight_loads_of_the_half_model_are_the_left_half_of_the_full_model :
  forall nodes ne nf g lf (em : nat -> R) j c, (j < ne)%nat -> (ne <= nf)%nat ->
    struct_weight_loads nodes nf g lf em j c = struct_weight_loads nodes ne g lf em j c.
Proof. exact struct_weight_loads_half_is_left_half_of_full. Qed.
Print Assumptions C04_structural_weight_loads_of_the_half_model_are_the_left_half_of_the_full_model.

(* ---- the folding theorem instantiated with the model's own influence matrix (Real/SymAssembled.v) ----
   Aic npx n2 alpha vm Pt Nn pi pj qi qj = sum_d vel_mtx(full-span code path, lattice vm, point Pt pi pj)(qi, qj, d) * Nn pi pj d;
   rhs Nn fs pi pj = - fs . Nn pi pj.  For ANY mirror-symmetric mesh (any npx, any n2 panels per side) the lattice
   (qc_rows), the collocation points and the unit normals are mirror symmetric, hence so is the system at zero sideslip *)
From OAS Require Import SymAssembled.
Theorem C04_mirror_symmetric_mesh_has_mirror_symmetric_system :
  forall npx n2 alpha v (m : nat -> nat -> nat -> R),
    (forall i j k, (j <= 2 * n2)%nat -> (k < 3)%nat -> m i (2 * n2 - j)%nat k = My (m i j) k) ->
    let A := Aic npx n2 alpha (qc_rows npx m) (coll_pts m) (g_normals m) in
    let b := rhs (g_normals m) (freestream alpha 0 v) in
    let sg := fun j => (2 * n2 - 1 - j)%nat in
    (forall pi pj qi qj, (pj < 2 * n2)%nat -> (qj < 2 * n2)%nat -> A pi (sg pj) qi (sg qj) = A pi pj qi qj) /\
    (forall pi pj, (pj < 2 * n2)%nat -> b pi (sg pj) = b pi pj).
Proof.
  intros npx n2 alpha v m Hm A b sg. split.
  - intros. apply Aic_sym; try assumption.
    + intros i j k Hj Hk. apply qc_rows_sym; assumption.
    + intros pi' pj' k Hj Hk. apply coll_pts_sym; assumption.
    + intros pi' pj' k Hj Hk. apply normals_sym; assumption.
  - intros. apply rhs_sym; try assumption.
    + intros pi' pj' k Hj Hk. apply normals_sym; assumption.
    + unfold freestream, mk3; cbn. replace (0 * PI / 180) with 0 by (unfold Rdiv; ring). rewrite sin_0. ring.
Qed.
Print Assumptions C04_mirror_symmetric_mesh_has_mirror_symmetric_system.

(* end to end: the half model - the SYMMETRIC code path (vel_mtx with the symmetry flag on) on the ghost lattice of a half
   mesh whose root column lies on y = 0 - and the full-span model of the mirrored mesh have the same solution: the mirror
   extension of the half model's circulations solves every row of the full-span system *)
Theorem C04_half_model_solution_is_the_full_model_solution :
  forall npx n2 alpha v (mh : nat -> nat -> nat -> R) (Gh : nat -> nat -> R),
    (forall i, mh i n2 1%nat = 0) ->
    let m := ghost_mesh n2 true mh in
    let vm := qc_rows npx m in
    let Asym := fun pi pj qi qj =>
        rsum 3 (fun d => vel_mtx npx n2 true false false alpha (get_vectors (fun _ => coll_pts m pi pj) vm) 0 qi qj d * g_normals m pi pj d) in
    let A := Aic npx n2 alpha vm (coll_pts m) (g_normals m) in
    let b := rhs (g_normals m) (freestream alpha 0 v) in
    (forall pi pj, (pi < npx)%nat -> (pj < n2)%nat ->
        rsum npx (fun qi => rsum n2 (fun qj => Asym pi pj qi qj * Gh qi qj)) = b pi pj) ->
    forall pi pj, (pi < npx)%nat -> (pj < 2 * n2)%nat ->
      rsum npx (fun qi => rsum (2 * n2) (fun qj => A pi pj qi qj * Gfull n2 Gh qi qj)) = b pi pj.
Proof. exact half_model_is_full_model. Qed.
Print Assumptions C04_half_model_solution_is_the_full_model_solution.
