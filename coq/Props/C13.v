(* C13 — geometry design variables act as documented; defaults leave the mesh unchanged.
   Property theorems only; proofs in Real/GeomProofs.v. *)
From Coq Require Import Reals Arith.
From OAS Require Import Scalar Rops Sums Geom Aero GeomProofs.
Open Scope R_scope.

(* default values: taper 1, chord scale 1, zero sweep / dihedral / shears are exact no-ops, for symmetric
   (either half) and full-span meshes, any reference-axis position *)
Theorem C13_defaults_noop_first_eight :
  forall npx npy sym rap (m : nat -> nat -> nat -> R) axis i j d,
    taper_mesh npx npy sym rap 1 m i j d = m i j d /\
    scalex_mesh npx rap (fun _ => 1) m i j d = m i j d /\
    sweep_mesh npy sym 0 m i j d = m i j d /\
    dihedral_mesh npy sym 0 m i j d = m i j d /\
    shear_mesh axis (fun _ => 0) m i j d = m i j d.
Proof.
  intros. split; [apply taper_default|]. split; [apply scalex_default|]. split; [apply sweep_default|].
  split; [apply dihedral_default | apply shear_default].
Qed.
Print Assumptions C13_defaults_noop_first_eight.

(* span = current span is a no-op for meshes whose chordwise lines have constant y ... *)
Theorem C13_default_span_noop :
  forall npx npy sym rap (m : nat -> nat -> nat -> R) i j d,
    let prev := ref_axis npx rap m npy 1%nat - ref_axis npx rap m 0%nat 1%nat in
    prev <> 0 -> (forall i', m i' j 1%nat = m 0%nat j 1%nat) ->
    stretch_mesh npx npy sym rap (if sym then 2 * prev else prev) m i j d = m i j d.
Proof. exact stretch_default. Qed.
Print Assumptions C13_default_span_noop.

(* ... the hypothesis is needed: Stretch gives every point of a chordwise line the same y *)
Theorem C13_stretch_flattens_chord_lines_in_y :
  forall npx npy sym rap span (m : nat -> nat -> nat -> R) i i' j,
    stretch_mesh npx npy sym rap span m i j 1%nat = stretch_mesh npx npy sym rap span m i' j 1%nat.
Proof. exact stretch_sets_y_of_whole_column. Qed.
Print Assumptions C13_stretch_flattens_chord_lines_in_y.

(* zero twist: x untouched, (y, z) offsets from the reference axis rotated by the local dihedral angle *)
Theorem C13_zero_twist_action :
  forall npx npy sym rx rap (m : nat -> nat -> nat -> R) i j,
    let tx := theta_x npx npy sym rx rap m j in
    let oy := m i j 1%nat - ref_axis npx rap m j 1%nat in let oz := m i j 2%nat - ref_axis npx rap m j 2%nat in
    rotate_mesh npx npy sym rx rap (fun _ => 0) m i j 0%nat = m i j 0%nat /\
    rotate_mesh npx npy sym rx rap (fun _ => 0) m i j 1%nat = ref_axis npx rap m j 1%nat + (cos tx * oy - sin tx * oz) /\
    rotate_mesh npx npy sym rx rap (fun _ => 0) m i j 2%nat = ref_axis npx rap m j 2%nat + (sin tx * oy + cos tx * oz).
Proof. exact rotate_zero_twist. Qed.
Print Assumptions C13_zero_twist_action.

(* hence a no-op for flat chord lines (and always without the x rotation) ... *)
Theorem C13_default_twist_noop_flat_sections :
  forall npx npy sym rx rap (m : nat -> nat -> nat -> R) i j d, (d < 3)%nat ->
    (m i j 1%nat = ref_axis npx rap m j 1%nat -> m i j 2%nat = ref_axis npx rap m j 2%nat ->
     rotate_mesh npx npy sym rx rap (fun _ => 0) m i j d = m i j d) /\
    rotate_mesh npx npy sym false rap (fun _ => 0) m i j d = m i j d.
Proof. intros; split; [intros; apply rotate_default_flat; assumption | apply rotate_default_without_rotate_x; assumption]. Qed.
Print Assumptions C13_default_twist_noop_flat_sections.

(* ... but NOT for a cambered / pre-twisted section on a wing with dihedral: the current code moves it
   at all-default design variables (recorded finding) *)
Theorem C13_defaults_noop_refuted :
  exists (m : nat -> nat -> nat -> R),
    rotate_mesh 1 1 true true (1 / 2) (fun _ => 0) m 0%nat 0%nat 1%nat <> m 0%nat 0%nat 1%nat.
Proof. exact defaults_noop_refuted. Qed.
Print Assumptions C13_defaults_noop_refuted.

(* documented effects *)
Theorem C13_sweep_dihedral_effect :
  forall npy ang (m : nat -> nat -> nat -> R) i j,
    (sweep_mesh npy true ang m i j 0%nat = m i j 0%nat + (m 0%nat npy 1%nat - m 0%nat j 1%nat) * tan (PI / 180 * ang) /\
     sweep_mesh npy true ang m i j 1%nat = m i j 1%nat /\ sweep_mesh npy true ang m i j 2%nat = m i j 2%nat) /\
    (dihedral_mesh npy true ang m i j 2%nat = m i j 2%nat + (m 0%nat npy 1%nat - m 0%nat j 1%nat) * tan (PI / 180 * ang) /\
     dihedral_mesh npy true ang m i j 0%nat = m i j 0%nat /\ dihedral_mesh npy true ang m i j 1%nat = m i j 1%nat) /\
    (let r := (npy / 2)%nat in let dy := m 0%nat j 1%nat - m 0%nat r 1%nat in
     sweep_mesh npy false ang m i j 0%nat = m i j 0%nat + (if (j <? r)%nat then - dy else dy) * tan (PI / 180 * ang) /\
     sweep_mesh npy false ang m i j 1%nat = m i j 1%nat /\ sweep_mesh npy false ang m i j 2%nat = m i j 2%nat).
Proof. intros; split; [apply sweep_effect_left | split; [apply dihedral_effect_left | apply sweep_effect_full]]. Qed.
Print Assumptions C13_sweep_dihedral_effect.

Theorem C13_sweep_keeps_planform_area :
  forall npy sym ang (m : nat -> nat -> nat -> R) i j,
    (forall i', m i' j 1%nat = m 0%nat j 1%nat) -> (forall i', m i' (S j) 1%nat = m 0%nat (S j) 1%nat) ->
    g_ncross (sweep_mesh npy sym ang m) i j 2%nat = g_ncross m i j 2%nat.
Proof. exact sweep_preserves_planform_area. Qed.
Print Assumptions C13_sweep_keeps_planform_area.

Theorem C13_taper_linear_from_root_to_tip :
  forall npx npy rap t (m : nat -> nat -> nat -> R) j,
    let y := ref_axis npx rap m j 1%nat in let span := ref_axis npx rap m npy 1%nat - ref_axis npx rap m 0%nat 1%nat in
    0 < span -> - span <= y <= 0 ->
    taper_factor npx npy true rap t m j = t + (1 - t) * ((y + span) / span).
Proof. exact taper_factor_left. Qed.
Print Assumptions C13_taper_linear_from_root_to_tip.

Theorem C13_taper_full_span_linear_from_centre_to_both_tips :
  forall npx npy rap t (m : nat -> nat -> nat -> R) j,
    let y := ref_axis npx rap m j 1%nat in let hs := (ref_axis npx rap m npy 1%nat - ref_axis npx rap m 0%nat 1%nat) / 2 in
    0 < hs -> - hs <= y <= hs ->
    taper_factor npx npy false rap t m j = 1 + (t - 1) * (Rabs y / hs).
Proof. exact taper_factor_full. Qed.
Print Assumptions C13_taper_full_span_linear_from_centre_to_both_tips.

Theorem C13_taper_and_chord_act_about_reference_axis :
  forall npx npy sym rap t chord (m : nat -> nat -> nat -> R) i j d,
    (ref_axis npx rap (scalex_mesh npx rap chord m) j d = ref_axis npx rap m j d /\
     scalex_mesh npx rap chord m i j d - ref_axis npx rap m j d = chord j * (m i j d - ref_axis npx rap m j d)) /\
    (ref_axis npx rap (taper_mesh npx npy sym rap t m) j d = ref_axis npx rap m j d /\
     taper_mesh npx npy sym rap t m i j d - ref_axis npx rap m j d = taper_factor npx npy sym rap t m j * (m i j d - ref_axis npx rap m j d)).
Proof. intros; split; [apply scalex_about_ref_axis | apply taper_about_ref_axis]. Qed.
Print Assumptions C13_taper_and_chord_act_about_reference_axis.

Theorem C13_span_sets_extent :
  forall npx npy sym rap span (m : nat -> nat -> nat -> R),
    let prev := ref_axis npx rap m npy 1%nat - ref_axis npx rap m 0%nat 1%nat in prev <> 0 ->
    ref_axis npx rap (stretch_mesh npx npy sym rap span m) npy 1%nat - ref_axis npx rap (stretch_mesh npx npy sym rap span m) 0%nat 1%nat
    = if sym then span / 2 else span.
Proof. exact span_sets_extent. Qed.
Print Assumptions C13_span_sets_extent.

Theorem C13_shears_translate_sections :
  forall axis sh (m : nat -> nat -> nat -> R) i i' j d,
    shear_mesh axis sh m i j d - m i j d = shear_mesh axis sh m i' j d - m i' j d.
Proof. exact shear_translates_section. Qed.
Print Assumptions C13_shears_translate_sections.

(* twist is a rotation about the reference axis: orthogonal matrix, chord length preserved *)
Theorem C13_twist_matrix_orthogonal :
  forall tx ty k k', (k < 3)%nat -> (k' < 3)%nat ->
    rsum 3 (fun d => rot_mat tx ty d k * rot_mat tx ty d k') = if (k =? k')%nat then 1 else 0.
Proof. exact rot_mat_orthogonal. Qed.
Print Assumptions C13_twist_matrix_orthogonal.
