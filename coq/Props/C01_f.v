(* C01 - analytic component derivatives equal the true derivatives.  Property theorems only (statements printed by Coq from the libraries Real/*Deriv.v).  DR g t0 p  :=  g t0 = fst p /\ is_derive g t0 (snd p);  every theorem says: along ANY differentiable curve of the inputs, the dual-number evaluation of the component model gives the value and the derivative - hence every partial derivative (C01_dual_number_tangent_is_the_partial_derivative) and, by composition, every chain of components (part 6) *)
From Coq Require Import Reals ZArith Lra Lia Arith Bool List String.
From Coquelicot Require Import Coquelicot.
From OAS Require Import Scalar Rops Sums Deriv Dual DualProofs Drag DragDeriv Stress StressDeriv StressProofs Transfer TransferDeriv Loads LoadsDeriv Functionals FunctionalsDeriv Aero AeroDeriv PG PGDeriv Beam BeamTables BeamDeriv Geom GeomDeriv Misc MiscDeriv MultiSec MultiSecDeriv Wingbox WingboxDeriv Small SmallDeriv Mphys MphysDeriv.
Open Scope R_scope.

Theorem C01_LiftDrag_lift :
  forall (np : nat) (sym : bool) (A : R -> R) (F : R -> nat -> nat -> R) (t0 : R) (a : dual R)
    (f : nat -> nat -> dual R),
  DR A t0 a -> DR2 F t0 f -> DR (fun t : R => lift np sym (A t) (F t)) t0 (lift np sym a f).
Proof. exact lift_DR. Qed.
Print Assumptions C01_LiftDrag_lift.

Theorem C01_LiftDrag_drag :
  forall (np : nat) (sym : bool) (A B : R -> R) (F : R -> nat -> nat -> R) (t0 : R) 
    (a b : dual R) (f : nat -> nat -> dual R),
  DR A t0 a -> DR B t0 b -> DR2 F t0 f -> DR (fun t : R => drag np sym (A t) (B t) (F t)) t0 (drag np sym a b f).
Proof. exact drag_DR. Qed.
Print Assumptions C01_LiftDrag_drag.

Theorem C01_Coeffs :
  forall (X Rho V S : R -> R) (t0 : R) (x rho v s : dual R),
  DR X t0 x ->
  DR Rho t0 rho ->
  DR V t0 v ->
  DR S t0 s ->
  ohalf * Rho t0 * (V t0 * V t0) * S t0 <> 0 ->
  DR (fun t : R => coeff (X t) (Rho t) (V t) (S t)) t0 (coeff x rho v s).
Proof. exact coeff_DR. Qed.
Print Assumptions C01_Coeffs.

Theorem C01_LiftCoeff2D :
  forall (npx : nat) (A Rho V : R -> R) (F : R -> nat -> nat -> nat -> R) (W C : R -> nat -> R) 
    (t0 : R) (a rho v : dual R) (f : nat -> nat -> nat -> dual R) (w c : nat -> dual R) 
    (j : nat),
  DR A t0 a ->
  DR Rho t0 rho ->
  DR V t0 v ->
  DR3 F t0 f ->
  DR1 W t0 w ->
  DR1 C t0 c ->
  W t0 j <> 0 ->
  ohalf * Rho t0 * (V t0 * V t0) * (ohalf * (C t0 (S j) + C t0 j)) <> 0 ->
  DR (fun t : R => lift_coeff_2d npx (A t) (Rho t) (V t) (F t) (W t) (C t) j) t0
    (lift_coeff_2d npx a rho v f w c j).
Proof. exact lift_coeff_2d_DR. Qed.
Print Assumptions C01_LiftCoeff2D.

(* PG components: partials declared by complex step in the code *)
Theorem C01_RotateToWindFrame :
  forall (A B : R -> R) (V : R -> nat -> R) (t0 : R) (a b : dual R) (v : nat -> dual R) (l : nat),
  DR A t0 a -> DR B t0 b -> DRv V t0 v -> DR (fun t : R => to_wind (A t) (B t) (V t) l) t0 (to_wind a b v l).
Proof. exact to_wind_DR. Qed.
Print Assumptions C01_RotateToWindFrame.

Theorem C01_RotateFromWindFrame :
  forall (A B : R -> R) (V : R -> nat -> R) (t0 : R) (a b : dual R) (v : nat -> dual R) (l : nat),
  DR A t0 a -> DR B t0 b -> DRv V t0 v -> DR (fun t : R => from_wind (A t) (B t) (V t) l) t0 (from_wind a b v l).
Proof. exact from_wind_DR. Qed.
Print Assumptions C01_RotateFromWindFrame.

Theorem C01_ScaleToPrandtlGlauert_points :
  forall (M : R -> R) (V : R -> nat -> R) (t0 : R) (m : dual R) (v : nat -> dual R),
  DR M t0 m ->
  DRv V t0 v ->
  0 < 1 - M t0 * M t0 -> forall d : nat, DR (fun t : R => pg_point (M t) (V t) d) t0 (pg_point m v d).
Proof. exact pg_point_DR. Qed.
Print Assumptions C01_ScaleToPrandtlGlauert_points.

Theorem C01_ScaleToPrandtlGlauert_normals :
  forall (M : R -> R) (V : R -> nat -> R) (t0 : R) (m : dual R) (v : nat -> dual R),
  DR M t0 m ->
  DRv V t0 v ->
  0 < 1 - M t0 * M t0 -> forall d : nat, DR (fun t : R => pg_normal (M t) (V t) d) t0 (pg_normal m v d).
Proof. exact pg_normal_DR. Qed.
Print Assumptions C01_ScaleToPrandtlGlauert_normals.

Theorem C01_ScaleToPrandtlGlauert_rotational_velocities :
  forall (M : R -> R) (V : R -> nat -> R) (t0 : R) (m : dual R) (v : nat -> dual R),
  DR M t0 m ->
  DRv V t0 v ->
  0 < 1 - M t0 * M t0 -> forall d : nat, DR (fun t : R => pg_rotvel (M t) (V t) d) t0 (pg_rotvel m v d).
Proof. exact pg_rotvel_DR. Qed.
Print Assumptions C01_ScaleToPrandtlGlauert_rotational_velocities.

Theorem C01_ScaleFromPrandtlGlauert_forces :
  forall (M : R -> R) (V : R -> nat -> R) (t0 : R) (m : dual R) (v : nat -> dual R),
  DR M t0 m ->
  DRv V t0 v ->
  0 < 1 - M t0 * M t0 -> forall d : nat, DR (fun t : R => pg_force_back (M t) (V t) d) t0 (pg_force_back m v d).
Proof. exact pg_force_back_DR. Qed.
Print Assumptions C01_ScaleFromPrandtlGlauert_forces.

Theorem C01_Length :
  forall (N : R -> nat -> nat -> R) (t0 : R) (n : nat -> nat -> dual R) (e : nat),
  DR2 N t0 n ->
  0 <
  osq (N t0 (S e) 0%nat - N t0 e 0%nat) + osq (N t0 (S e) 1%nat - N t0 e 1%nat) +
  osq (N t0 (S e) 2%nat - N t0 e 2%nat) -> DR (fun t : R => elem_length (N t) e) t0 (elem_length n e).
Proof. exact elem_length_DR. Qed.
Print Assumptions C01_Length.

Theorem C01_LocalStiff :
  forall (E G A J Iy Iz L : R -> R) (t0 : R) (e g a j' iy iz l : dual R) (i k : nat),
  DR E t0 e ->
  DR G t0 g ->
  DR A t0 a ->
  DR J t0 j' ->
  DR Iy t0 iy ->
  DR Iz t0 iz ->
  DR L t0 l ->
  L t0 <> 0 ->
  DR (fun t : R => local_stiff (E t) (G t) (A t) (J t) (Iy t) (Iz t) (L t) i k) t0
    (local_stiff e g a j' iy iz l i k).
Proof. exact local_stiff_DR. Qed.
Print Assumptions C01_LocalStiff.

