(* C02 - coupled total derivatives are correct and identical in forward and reverse mode.  Property theorems only (statements printed by Coq from Real/AdjointProofs.v, BeamProofs.v, ComposeProofs.v, *Deriv.v) *)
From Coq Require Import Reals ZArith Lra Lia Arith Bool List String.
From Coquelicot Require Import Coquelicot.
From OAS Require Import Scalar Rops Sums Deriv Dual DualProofs Adjoint AdjointProofs Beam BeamTables BeamProofs BeamDeriv Aero AeroDeriv Mphys ComposeProofs Transfer TransferDeriv.
Open Scope R_scope.

(* for ANY solutions Phi of A Phi = -B and Psi of A^T Psi = C^T (any sizes; no inverse needed): D + C Phi = D - Psi^T B *)
Theorem C02_forward_and_reverse_totals_coincide :
  forall (n m p : nat) (A B C D Phi Psi : nat -> nat -> R),
  solves_fwd n m A B Phi ->
  solves_rev n p A C Psi ->
  forall i j : nat, (i < p)%nat -> (j < m)%nat -> tot_fwd n C D Phi i j = tot_rev n B D Psi i j.
Proof. exact fwd_eq_rev. Qed.
Print Assumptions C02_forward_and_reverse_totals_coincide.

(* solver independence: whatever linear solver produced an exact solution, it is THE solution (left inverse suffices) *)
Theorem C02_exact_linear_solves_are_unique :
  forall (n m : nat) (A Ainv X1 X2 Y : nat -> nat -> R),
  (forall i j : nat, (i < n)%nat -> (j < n)%nat -> mmul n Ainv A i j = (if i =? j then 1 else 0)) ->
  (forall i j : nat, (i < n)%nat -> (j < m)%nat -> mmul n A X1 i j = Y i j) ->
  (forall i j : nat, (i < n)%nat -> (j < m)%nat -> mmul n A X2 i j = Y i j) ->
  forall i j : nat, (i < n)%nat -> (j < m)%nat -> X1 i j = X2 i j.
Proof. exact solution_unique. Qed.
Print Assumptions C02_exact_linear_solves_are_unique.

(* if A(t) u(t) = b(t) for all t, then u' solves A u' = b' - A' u: what the forward mode computes for SolveMatrix and FEM *)
Theorem C02_forward_solve_is_derivative_of_converged_analysis :
  forall (n : nat) (A : R -> nat -> nat -> R) (b u : R -> nat -> R) (t0 : R) (a' : nat -> nat -> dual R)
    (b' u' : nat -> dual R),
  (forall i j : nat, DR (fun t : R => A t i j) t0 (a' i j)) ->
  (forall i : nat, DR (fun t : R => b t i) t0 (b' i)) ->
  (forall i : nat, DR (fun t : R => u t i) t0 (u' i)) ->
  (forall (t : R) (i : nat), (i < n)%nat -> rsum n (fun j : nat => A t i j * u t j) = b t i) ->
  forall i : nat,
  (i < n)%nat ->
  rsum n (fun j : nat => A t0 i j * snd (u' j)) = snd (b' i) - rsum n (fun j : nat => snd (a' i j) * u t0 j).
Proof. exact implicit_linear_derivative. Qed.
Print Assumptions C02_forward_solve_is_derivative_of_converged_analysis.

(* the linearisation of the two implicit components (C01) *)
Theorem C02_SolveMatrix_partials :
  forall (n : nat) (Mt : R -> nat -> nat -> R) (Rh Ci : R -> nat -> R) (t0 : R) (mt : nat -> nat -> dual R)
    (rh ci : nat -> dual R) (p : nat),
  DR2 Mt t0 mt ->
  DR1 Rh t0 rh ->
  DR1 Ci t0 ci -> DR (fun t : R => solve_residual n (Mt t) (Rh t) (Ci t) p) t0 (solve_residual n mt rh ci p).
Proof. exact solve_residual_DR. Qed.
Print Assumptions C02_SolveMatrix_partials.

Theorem C02_FEM_partials :
  forall (ne root : nat) (Kl : R -> nat -> nat -> nat -> R) (F U : R -> nat -> R) (t0 : R)
    (kl : nat -> nat -> nat -> dual R) (f u : nat -> dual R) (p : nat),
  DR3 Kl t0 kl ->
  DR1 F t0 f ->
  DR1 U t0 u -> DR (fun t : R => fem_residual ne root (Kl t) (F t) (U t) p) t0 (fem_residual ne root kl f u p).
Proof. exact fem_residual_DR. Qed.
Print Assumptions C02_FEM_partials.

(* symmetry of the stiffness matrix, from the GENERATED coefficient tables, through permutation, congruence and assembly *)
Theorem C02_element_stiffness_symmetric :
  forall (E G A J Iy Iz L : R) (i j : nat),
  L <> 0 ->
  (i < 12)%nat ->
  (j < 12)%nat -> permuted (local_stiff E G A J Iy Iz L) i j = permuted (local_stiff E G A J Iy Iz L) j i.
Proof. exact permuted_local_stiff_symmetric. Qed.
Print Assumptions C02_element_stiffness_symmetric.

Theorem C02_congruence_preserves_symmetry :
  forall (Tm Kp : nat -> nat -> R) (j k : nat),
  (forall l m : nat, (l < 12)%nat -> (m < 12)%nat -> Kp l m = Kp m l) ->
  transformed Tm Kp j k = transformed Tm Kp k j.
Proof. exact transformed_symmetric. Qed.
Print Assumptions C02_congruence_preserves_symmetry.

Theorem C02_assembled_stiffness_symmetric :
  forall (ne root : nat) (kloc : nat -> nat -> nat -> R) (p q : nat),
  (forall e i j : nat, (e < ne)%nat -> kloc e i j = kloc e j i) ->
  K_aug ne root kloc p q = K_aug ne root kloc q p.
Proof. exact K_aug_symmetric. Qed.
Print Assumptions C02_assembled_stiffness_symmetric.

(* FEM.solve_linear re-uses the factorisation of K in reverse mode: correct because K is symmetric *)
Theorem C02_FEM_reverse_solve_with_forward_factorisation_is_correct :
  forall (n : nat) (Km : nat -> nat -> R),
  (forall p q : nat, (p < n)%nat -> (q < n)%nat -> Km p q = Km q p) ->
  forall x b : nat -> R,
  (forall p : nat, (p < n)%nat -> rsum n (fun q : nat => Km p q * x q) = b p) ->
  forall p : nat, (p < n)%nat -> rsum n (fun q : nat => Km q p * x q) = b p.
Proof. exact fem_rev_correct. Qed.
Print Assumptions C02_FEM_reverse_solve_with_forward_factorisation_is_correct.

(* the dependence on symmetry is real: any edit that breaks the symmetry of K breaks the obligation above *)
Theorem C02_FEM_reverse_solve_would_be_wrong_without_symmetry :
  exists (Km : nat -> nat -> R) (x b : nat -> R),
    (forall p : nat, (p < 2)%nat -> rsum 2 (fun q : nat => Km p q * x q) = b p) /\
    ~ (forall p : nat, (p < 2)%nat -> rsum 2 (fun q : nat => Km q p * x q) = b p).
Proof. exact fem_rev_refuted_if_unsym. Qed.
Print Assumptions C02_FEM_reverse_solve_would_be_wrong_without_symmetry.

(* the matrix-free MPhys components: index maps are mutually inverse and adjoint *)
Theorem C02_mux_then_demux :
  forall (sizes : list nat) (blocks : nat -> nat -> R) (s k : nat),
  (s < Datatypes.length sizes)%nat -> (k < nth s sizes 0)%nat -> demux sizes (mux sizes blocks) s k = blocks s k.
Proof. exact demux_mux. Qed.
Print Assumptions C02_mux_then_demux.

Theorem C02_demux_then_mux :
  forall (sizes : list nat) (X : nat -> R) (p : nat), (p < total sizes)%nat -> mux sizes (demux sizes X) p = X p.
Proof. exact mux_demux. Qed.
Print Assumptions C02_demux_then_mux.

Theorem C02_mux_demux_adjoint :
  forall (sizes : list nat) (blocks : nat -> nat -> R) (e : nat -> R),
  rsum (total sizes) (fun p : nat => mux sizes blocks p * e p) = block_dot sizes blocks e.
Proof. exact mux_adjoint. Qed.
Print Assumptions C02_mux_demux_adjoint.

(* chain rule: a derivative theorem of C01 takes ARBITRARY differentiable input curves, so it applies to the outputs of upstream components; e.g. nodes -> transformation matrix -> deformed mesh *)
Theorem C02_chain_of_components_example :
  forall (npx : nat) (W : R -> R) (M : R -> nat -> nat -> nat -> R) (Dp : R -> nat -> nat -> R) 
    (t0 : R) (w : dual R) (m : nat -> nat -> nat -> dual R) (dp : nat -> nat -> dual R) 
    (i j d : nat),
  DR W t0 w ->
  DR3 M t0 m ->
  DR2 Dp t0 dp ->
  DR (fun t : R => def_mesh_group npx (W t) (M t) (Dp t) i j d) t0 (def_mesh_group npx w m dp i j d).
Proof. exact def_mesh_group_DR. Qed.
Print Assumptions C02_chain_of_components_example.

(* the whole VLMStates wiring up to the linear system (deformed mesh, alpha, beta, v, circulations -> residual of the aerodynamic system) composed from the component theorems; any panel count *)
Theorem C02_chain_VLMStates_to_linear_system :
  forall (npx npy : nat) (sym left : bool) (Al Be V : R -> R) (M : R -> nat -> nat -> nat -> R)
    (C : R -> nat -> R) (t0 : R) (al be v : dual R) (m : nat -> nat -> nat -> dual R) 
    (c : nat -> dual R),
  DR Al t0 al ->
  DR Be t0 be ->
  DR V t0 v ->
  DR3 M t0 m ->
  DR1 C t0 c ->
  (0 < npy)%nat ->
  (forall i j : nat, (i < npx)%nat -> (j < npy)%nat -> 0 < sq3 (g_ncross (M t0) i j)) ->
  (forall b e i j : nat, ring_ok npx (fun t : R => chain_vectors npx npy sym left (M t)) t0 b e i j) ->
  (forall b e j : nat, trail_ok npx Al (fun t : R => chain_vectors npx npy sym left (M t)) t0 b e j) ->
  forall p : nat,
  (p < npx * npy)%nat ->
  DR (fun t : R => chain_residual npx npy sym left (Al t) (Be t) (V t) (M t) (C t) p) t0
    (chain_residual npx npy sym left al be v m c p).
Proof. exact chain_residual_DR. Qed.
Print Assumptions C02_chain_VLMStates_to_linear_system.

