(* C01 - analytic component derivatives equal the true derivatives.  Property theorems only (statements printed by Coq from the libraries Real/*Deriv.v).  DR g t0 p  :=  g t0 = fst p /\ is_derive g t0 (snd p);  every theorem says: along ANY differentiable curve of the inputs, the dual-number evaluation of the component model gives the value and the derivative - hence every partial derivative (C01_dual_number_tangent_is_the_partial_derivative) and, by composition, every chain of components (part 3) *)
From Coq Require Import Reals ZArith Lra Lia Arith Bool List String.
From Coquelicot Require Import Coquelicot.
From OAS Require Import Scalar Rops Sums Deriv Dual DualProofs Drag DragDeriv Stress StressDeriv StressProofs Transfer TransferDeriv Loads LoadsDeriv Functionals FunctionalsDeriv Aero AeroDeriv PG PGDeriv Beam BeamTables BeamDeriv Geom GeomDeriv Misc MiscDeriv MultiSec MultiSecDeriv Wingbox WingboxDeriv Small SmallDeriv Mphys MphysDeriv.
Open Scope R_scope.

Theorem C01_ComputeThrustLoads :
  forall (N : R -> nat -> nat -> R) (t0 : R) (n : nat -> nat -> dual R),
  DR2 N t0 n ->
  forall (ne npm : nat) (Locs : R -> nat -> nat -> R) (Th : R -> nat -> R) (locs : nat -> nat -> dual R)
    (th : nat -> dual R) (j c : nat),
  DR2 Locs t0 locs ->
  DR1 Th t0 th ->
  DR (fun t : R => loads_from_thrusts (N t) ne npm (Locs t) (Th t) j c) t0
    (loads_from_thrusts n ne npm locs th j c).
Proof. exact loads_from_thrusts_DR. Qed.
Print Assumptions C01_ComputeThrustLoads.

Theorem C01_TotalLoads :
  forall (sw fl pm : bool) (L Sw Fw Lp Lt : R -> nat -> nat -> R) (t0 : R)
    (l sw' fw lp lt : nat -> nat -> dual R) (j c : nat),
  DR2 L t0 l ->
  DR2 Sw t0 sw' ->
  DR2 Fw t0 fw ->
  DR2 Lp t0 lp ->
  DR2 Lt t0 lt ->
  DR (fun t : R => total_loads sw fl pm (L t) (Sw t) (Fw t) (Lp t) (Lt t) j c) t0
    (total_loads sw fl pm l sw' fw lp lt j c).
Proof. exact total_loads_DR. Qed.
Print Assumptions C01_TotalLoads.

Theorem C01_SumAreas :
  forall (cs : list (R -> R)) (t0 : R) (ds : list (dual R)),
  DRl cs t0 ds -> DR (fun t : R => sum_areas (at_ t cs)) t0 (sum_areas ds).
Proof. exact sum_areas_DR. Qed.
Print Assumptions C01_SumAreas.

Theorem C01_TotalLiftDrag_force :
  forall (cs : list ((R -> R) * (R -> R))) (Rho V : R -> R) (t0 : R) (ds : list (dual R * dual R))
    (rho v : dual R),
  DRl2 cs t0 ds ->
  DR Rho t0 rho -> DR V t0 v -> DR (fun t : R => tld_force (at2 t cs) (Rho t) (V t)) t0 (tld_force ds rho v).
Proof. exact tld_force_DR. Qed.
Print Assumptions C01_TotalLiftDrag_force.

Theorem C01_TotalLiftDrag_coefficient :
  forall (cs : list ((R -> R) * (R -> R))) (S : R -> R) (t0 : R) (ds : list (dual R * dual R)) (s : dual R),
  DRl2 cs t0 ds -> DR S t0 s -> S t0 <> 0 -> DR (fun t : R => tld_coeff (at2 t cs) (S t)) t0 (tld_coeff ds s).
Proof. exact tld_coeff_DR. Qed.
Print Assumptions C01_TotalLiftDrag_coefficient.

Theorem C01_Equilibrium_total_weight :
  forall (G0 Lf W0 Fb : R -> R) (ms : list (R -> R)) (t0 : R) (g0 lf w0 fb : dual R) (ds : list (dual R)),
  DR G0 t0 g0 ->
  DR Lf t0 lf ->
  DR W0 t0 w0 ->
  DR Fb t0 fb ->
  DRl ms t0 ds ->
  DR (fun t : R => eq_total_weight (G0 t) (Lf t) (W0 t) (Fb t) (at_ t ms)) t0 (eq_total_weight g0 lf w0 fb ds).
Proof. exact eq_total_weight_DR. Qed.
Print Assumptions C01_Equilibrium_total_weight.

Theorem C01_Equilibrium_L_equals_W :
  forall (G0 Lf W0 Fb Rho V S CL : R -> R) (ms : list (R -> R)) (t0 : R) (g0 lf w0 fb rho v s cl : dual R)
    (ds : list (dual R)),
  DR G0 t0 g0 ->
  DR Lf t0 lf ->
  DR W0 t0 w0 ->
  DR Fb t0 fb ->
  DR Rho t0 rho ->
  DR V t0 v ->
  DR S t0 s ->
  DR CL t0 cl ->
  DRl ms t0 ds ->
  eq_total_weight (G0 t0) (Lf t0) (W0 t0) (Fb t0) (at_ t0 ms) <> 0 ->
  DR (fun t : R => eq_LW (G0 t) (Lf t) (W0 t) (Fb t) (at_ t ms) (Rho t) (V t) (S t) (CL t)) t0
    (eq_LW g0 lf w0 fb ds rho v s cl).
Proof. exact eq_LW_DR. Qed.
Print Assumptions C01_Equilibrium_L_equals_W.

Theorem C01_BreguetRange :
  forall (CT A Rg M W0 CL CD : R -> R) (ms : list (R -> R)) (t0 : R) (ct a rg m w0 cl cd : dual R)
    (ds : list (dual R)),
  DR CT t0 ct ->
  DR A t0 a ->
  DR Rg t0 rg ->
  DR M t0 m ->
  DR W0 t0 w0 ->
  DR CL t0 cl ->
  DR CD t0 cd ->
  DRl ms t0 ds ->
  A t0 <> 0 ->
  M t0 <> 0 ->
  CL t0 <> 0 ->
  DR (fun t : R => breguet (CT t) (A t) (Rg t) (M t) (W0 t) (CL t) (CD t) (at_ t ms)) t0
    (breguet ct a rg m w0 cl cd ds).
Proof. exact breguet_DR. Qed.
Print Assumptions C01_BreguetRange.

Theorem C01_CenterOfGravity :
  forall (G0 Lf W0 Fb Tw : R -> R) (Ecg : R -> nat -> R) (ss : list ((R -> R) * (R -> nat -> R))) 
    (t0 : R) (g0 lf w0 fb tw : dual R) (ecg : nat -> dual R) (ds : list (dual R * (nat -> dual R))) 
    (d : nat),
  DR G0 t0 g0 ->
  DR Lf t0 lf ->
  DR W0 t0 w0 ->
  DR Fb t0 fb ->
  DR Tw t0 tw ->
  DRv Ecg t0 ecg ->
  DRlc ss t0 ds ->
  G0 t0 * Lf t0 <> 0 ->
  Tw t0 / (G0 t0 * Lf t0) - Fb t0 <> 0 ->
  DR (fun t : R => cog (G0 t) (Lf t) (W0 t) (Fb t) (Tw t) (Ecg t) (atc t ss) d) t0 (cog g0 lf w0 fb tw ecg ds d).
Proof. exact cog_DR. Qed.
Print Assumptions C01_CenterOfGravity.

Theorem C01_ReynoldsComp :
  forall (Rho V Mu : R -> R) (t0 : R) (rho v mu : dual R),
  DR Rho t0 rho ->
  DR V t0 v ->
  DR Mu t0 mu -> Mu t0 <> 0 -> DR (fun t : R => reynolds (Rho t) (V t) (Mu t)) t0 (reynolds rho v mu).
Proof. exact reynolds_DR. Qed.
Print Assumptions C01_ReynoldsComp.

Theorem C01_AtmosComp_speed :
  forall (A M : R -> R) (t0 : R) (a m : dual R),
  DR A t0 a -> DR M t0 m -> DR (fun t : R => speed (A t) (M t)) t0 (speed a m).
Proof. exact speed_DR. Qed.
Print Assumptions C01_AtmosComp_speed.

Theorem C01_MomentCoefficient_M :
  forall (ss : list (R -> MSurf)) (Cg : R -> nat -> R) (t0 : R) (ds : list MSurf) (cg : nat -> dual R) (d : nat),
  DRls ss t0 ds -> DRv Cg t0 cg -> DR (fun t : R => moment_M (ats t ss) (Cg t) d) t0 (moment_M ds cg d).
Proof. exact moment_M_DR. Qed.
Print Assumptions C01_MomentCoefficient_M.

