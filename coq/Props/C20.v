(* C20 - invalid set-ups are rejected loudly; valid ones are accepted; unknown keys warn.  Property theorems only (Real/SetupProofs.v over Model/Setup.v and the generated key lists) *)
From Coq Require Import ZArith Lia Arith Bool List String.
Import ListNotations.
From OAS Require Import SetupKeys Setup SetupProofs RaiseSites RaiseSitesReviewed RaiseSitesProofs.
Open Scope string_scope.

(* generate_mesh *)
Theorem C20_even_num_y_rejected :
  forall (num_y : Z) (wt : string), Z.even num_y = true -> gm_outcome num_y wt = Raised ValueError.
Proof. exact even_num_y_rejected. Qed.
Print Assumptions C20_even_num_y_rejected.

Theorem C20_unknown_wing_type_rejected :
  forall (num_y : Z) (wt : string),
  Z.even num_y = false -> wt <> "rect" -> contains "CRM" wt = false -> gm_outcome num_y wt = Raised NameError.
Proof. exact unknown_wing_type_rejected. Qed.
Print Assumptions C20_unknown_wing_type_rejected.

Theorem C20_valid_mesh_request_accepted :
  forall (num_y : Z) (wt : string),
  Z.even num_y = false -> wt = "rect" \/ contains "CRM" wt = true -> gm_outcome num_y wt = Accepted.
Proof. exact valid_mesh_request_accepted. Qed.
Print Assumptions C20_valid_mesh_request_accepted.

(* over the key list GENERATED from get_default_geo_dict *)
Theorem C20_unknown_mesh_key_warns :
  forall (keys : list string) (wt k : string),
  In k keys -> ~ In k gen_mesh_dict_keys -> In (KeyNotImplemented k) (gm_warnings keys wt).
Proof. exact unknown_mesh_key_warns. Qed.
Print Assumptions C20_unknown_mesh_key_warns.

Theorem C20_known_mesh_keys_do_not_warn :
  forall (keys : list string) (wt k : string),
  In k gen_mesh_dict_keys -> ~ In (KeyNotImplemented k) (gm_warnings keys wt).
Proof. exact known_mesh_keys_do_not_warn. Qed.
Print Assumptions C20_known_mesh_keys_do_not_warn.

Theorem C20_missing_important_key_warns :
  forall (keys : list string) (wt k : string),
  In k gen_mesh_dict_important -> ~ In k keys -> In (KeyMissing k) (gm_warnings keys wt).
Proof. exact missing_important_key_warns. Qed.
Print Assumptions C20_missing_important_key_warns.

(* over the key list GENERATED from check_surface_dict_keys *)
Theorem C20_unknown_surface_key_warns :
  forall (keys : list string) (k : string),
  In k keys -> ~ In k gen_surface_keys_implemented -> In (SurfaceKeyNotSupported k) (surface_warnings keys).
Proof. exact unknown_surface_key_warns. Qed.
Print Assumptions C20_unknown_surface_key_warns.

Theorem C20_documented_surface_keys_do_not_warn :
  forall keys : list string,
  (forall k : string, In k keys -> In k gen_surface_keys_implemented) -> surface_warnings keys = [].
Proof. exact documented_surface_keys_do_not_warn. Qed.
Print Assumptions C20_documented_surface_keys_do_not_warn.

(* for any list of surfaces *)
Theorem C20_ground_effect_without_symmetry_rejected :
  forall surfaces : list (bool * bool),
  In (false, true) surfaces -> vortex_mesh_outcome surfaces = Raised ValueError.
Proof. exact ground_effect_without_symmetry_rejected. Qed.
Print Assumptions C20_ground_effect_without_symmetry_rejected.

Theorem C20_ground_effect_with_symmetry_accepted :
  forall surfaces : list (bool * bool),
  (forall s g : bool, In (s, g) surfaces -> g = true -> s = true) -> vortex_mesh_outcome surfaces = Accepted.
Proof. exact ground_effect_with_symmetry_accepted. Qed.
Print Assumptions C20_ground_effect_with_symmetry_accepted.

Theorem C20_unknown_structural_model_rejected :
  forall (t : string) (a b : bool),
  t <> "tube" -> t <> "wingbox" -> struct_outcome t a b = Raised NameError /\ perf_outcome t = Raised NameError.
Proof. exact unknown_structural_model_rejected. Qed.
Print Assumptions C20_unknown_structural_model_rejected.

Theorem C20_only_one_wingbox_thickness_rejected :
  forall a b : bool, xorb a b = true -> struct_outcome "wingbox" a b = Raised NameError.
Proof. exact only_one_wingbox_thickness_rejected. Qed.
Print Assumptions C20_only_one_wingbox_thickness_rejected.

Theorem C20_valid_structural_models_accepted :
  forall a b : bool,
  struct_outcome "tube" a b = Accepted /\
  (xorb a b = false -> struct_outcome "wingbox" a b = Accepted) /\
  perf_outcome "tube" = Accepted /\ perf_outcome "wingbox" = Accepted.
Proof. exact valid_structural_models_accepted. Qed.
Print Assumptions C20_valid_structural_models_accepted.

(* multi-section surfaces, any number of sections *)
Theorem C20_wrong_length_section_lists_rejected :
  forall (n : nat) (g : bool) (a b c d m s : nat),
  (g = true -> a <> n \/ b <> n \/ c <> n \/ d <> n \/ s <> n) ->
  (g = false -> m <> n \/ s <> n) -> sections_outcome n g a b c d m s = Raised ValueError.
Proof. exact wrong_length_section_lists_rejected. Qed.
Print Assumptions C20_wrong_length_section_lists_rejected.

Theorem C20_right_length_section_lists_accepted :
  forall (n : nat) (g : bool) (a b c d m s : nat),
  s = n ->
  (g = true -> a = n /\ b = n /\ c = n /\ d = n) ->
  (g = false -> m = n) -> sections_outcome n g a b c d m s = Accepted.
Proof. exact right_length_section_lists_accepted. Qed.
Print Assumptions C20_right_length_section_lists_accepted.

Theorem C20_asymmetric_sections_need_root :
  forall n : nat,
  1 < n ->
  root_section_outcome false n false = Raised PlainException /\ root_section_outcome false n true = Accepted.
Proof. exact asymmetric_sections_need_root. Qed.
Print Assumptions C20_asymmetric_sections_need_root.

(* translator tie: every raise statement of the package with the chain of conditions guarding it, REGENERATED from /repo on every run, equals the list the decision model was written from (Model/RaiseSitesReviewed.v); any edit of a guard breaks this obligation *)
Theorem C20_rejection_guards_are_the_reviewed_ones :
  gen_raise_sites = reviewed_raise_sites.
Proof. exact raise_sites_reviewed. Qed.
Print Assumptions C20_rejection_guards_are_the_reviewed_ones.

Theorem C20_parity_guard_does_not_depend_on_symmetry_or_wing_type :
  In ("geometry/utils.py", "generate_mesh", "ValueError", ["not num_y % 2"]) gen_raise_sites.
Proof. exact parity_guard_alone. Qed.
Print Assumptions C20_parity_guard_does_not_depend_on_symmetry_or_wing_type.

