(* C09 — the compressibility correction implements Prandtl-Glauert and is exact at Mach 0.
   Property theorems only; proofs in Real/PGProofs.v. *)
From Coq Require Import Reals Arith.
From OAS Require Import Scalar Rops Sums Stress Vec3 Aero VLM AeroProofs PG PGProofs.
Open Scope R_scope.

(* aero <-> wind frame: an orthogonal change of frame (rotating back is the inverse, lengths and angles kept) *)
Theorem C09_wind_frame_rotation_orthogonal :
  forall a b (u v : nat -> R) l, (l < 3)%nat ->
    from_wind a b (to_wind a b v) l = v l /\ to_wind a b (from_wind a b v) l = v l /\
    dot (to_wind a b u) (to_wind a b v) = dot u v.
Proof. intros; split; [apply from_wind_to_wind | split; [apply to_wind_from_wind | apply to_wind_isometry]]; assumption. Qed.
Print Assumptions C09_wind_frame_rotation_orthogonal.

(* the free stream (alpha, beta) becomes the x axis of the wind frame *)
Theorem C09_free_stream_to_x_axis :
  forall a b l, (l < 3)%nat ->
    to_wind a b (mk3 (cos a * cos b) (- sin b) (sin a * cos b)) l = match l with 0%nat => 1 | _ => 0 end.
Proof. exact Tw_stream_to_x. Qed.
Print Assumptions C09_free_stream_to_x_axis.

(* scalings: points (1,B,B), normals (B,1,1), rotational velocities (B^2,B,B), forces (1/B^4,1/B^3,1/B^3),
   with B = sqrt(1 - M^2) in (0,1] for 0 <= M < 1 and B^2 = 1 - M^2 *)
Theorem C09_prandtl_glauert_scalings :
  forall M (v : nat -> R) d, 0 <= M < 1 ->
    let B := betaPG M in
    0 < B <= 1 /\ B * B = 1 - M * M /\
    pg_point M v d = (if (d =? 0)%nat then v d else v d * B) /\
    pg_normal M v d = (if (d =? 0)%nat then v d * B else v d) /\
    pg_rotvel M v d = (if (d =? 0)%nat then v d * (B * B) else v d * B) /\
    pg_force_back M v d = (if (d =? 0)%nat then v d * (1 / (B * B * (B * B))) else v d * (1 / (B * B * B))).
Proof.
  intros M v d HM B. split; [apply betaPG_range; exact HM|]. split; [apply betaPG_sq; exact HM|].
  repeat split; reflexivity.
Qed.
Print Assumptions C09_prandtl_glauert_scalings.

(* Mach 0: all four scalings are the identity *)
Theorem C09_mach0_scalings_identity :
  forall (v : nat -> R) d,
    pg_point 0 v d = v d /\ pg_normal 0 v d = v d /\ pg_rotvel 0 v d = v d /\ pg_force_back 0 v d = v d.
Proof. exact pg_scalings_identity_at_mach0. Qed.
Print Assumptions C09_mach0_scalings_identity.

(* zero sideslip: the rotation to the wind frame is a proper rotation about y that maps the wake direction
   of the incompressible solver onto the wake direction of the PG-domain solve (alpha_pg = 0) ... *)
Theorem C09_zero_sideslip_wake_alignment :
  forall a (v : nat -> R) l, (l < 3)%nat ->
    to_wind a 0 v l = roty (cos a) (sin a) v l /\
    to_wind a 0 (mk3 (cos a) 0 (sin a)) l = match l with 0%nat => 1 | _ => 0 end.
Proof. intros; split; [apply to_wind_is_roty | apply Tw_wake_to_x]; assumption. Qed.
Print Assumptions C09_zero_sideslip_wake_alignment.

(* ... under which both vortex kernels rotate with the geometry: the PG-domain solution at Mach 0 is the
   rotated incompressible solution, and rotating the forces back recovers the incompressible forces *)
Theorem C09_kernels_rotation_covariant :
  forall c s (u r1 r2 : nat -> R) d, s * s + c * c = 1 -> (d < 3)%nat ->
    fv (roty c s r1) (roty c s r2) d = roty c s (fv r1 r2) d /\
    semi (roty c s u) (roty c s r1) d = roty c s (semi u r1) d /\
    cross (roty c s r1) (roty c s r2) d = roty c s (cross r1 r2) d /\
    dot (roty c s r1) (roty c s r2) = dot r1 r2.
Proof.
  intros c s u r1 r2 d H Hd. split; [apply fv_roty; assumption|]. split; [apply semi_roty; assumption|].
  split; [apply roty_cross; assumption | apply roty_dot; assumption].
Qed.
Print Assumptions C09_kernels_rotation_covariant.

(* with sideslip the two wake directions differ (the incompressible path's wake ignores beta):
   this is why the Mach-0 identity is stated at zero sideslip *)
Theorem C09_sideslip_wake_differs :
  forall a b, to_wind a b (mk3 (cos a) 0 (sin a)) 0%nat = cos b /\ to_wind a b (mk3 (cos a) 0 (sin a)) 1%nat = sin b.
Proof. exact Tw_wake_with_sideslip. Qed.
Print Assumptions C09_sideslip_wake_differs.

(* rotating flight: the (B^2, B, B) scaling of the rigid-rotation onset velocity (wind axes) is exactly what makes it the
   velocity field of a rigid rotation in the Prandtl-Glauert domain - rate (w_x, B w_y, B w_z) about the transformed point *)
Theorem C09_scaled_rotational_velocity_is_a_rigid_rotation_in_the_PG_domain :
  forall M (w r : nat -> R) d, (d < 3)%nat -> pg_rotvel M (cross w r) d = cross (pg_point M w) (pg_point M r) d.
Proof. exact pg_rotvel_is_rigid_rotation. Qed.
Print Assumptions C09_scaled_rotational_velocity_is_a_rigid_rotation_in_the_PG_domain.

Theorem C09_uniform_scaling_of_the_rotational_velocity_refuted :
  forall M, betaPG M <> 0 -> betaPG M <> 1 ->
    exists (w r : nat -> R), cross w r 0%nat * betaPG M <> cross (pg_point M w) (pg_point M r) 0%nat.
Proof. exact uniform_scaling_is_not. Qed.
Print Assumptions C09_uniform_scaling_of_the_rotational_velocity_refuted.

