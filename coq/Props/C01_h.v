(* C01 - analytic component derivatives equal the true derivatives.  Property theorems only (statements printed by Coq from the libraries Real/*Deriv.v).  DR g t0 p  :=  g t0 = fst p /\ is_derive g t0 (snd p);  every theorem says: along ANY differentiable curve of the inputs, the dual-number evaluation of the component model gives the value and the derivative - hence every partial derivative (C01_dual_number_tangent_is_the_partial_derivative) and, by composition, every chain of components (part 8) *)
From Coq Require Import Reals ZArith Lra Lia Arith Bool List String.
From Coquelicot Require Import Coquelicot.
From OAS Require Import Scalar Rops Sums Deriv Dual DualProofs Drag DragDeriv Stress StressDeriv StressProofs Transfer TransferDeriv Loads LoadsDeriv Functionals FunctionalsDeriv Aero AeroDeriv PG PGDeriv Beam BeamTables BeamDeriv Geom GeomDeriv Misc MiscDeriv MultiSec MultiSecDeriv.
Open Scope R_scope.

Theorem C01_Stretch :
  forall (npx npy : nat) (M : R -> nat -> nat -> nat -> R) (Rap : R -> R) (t0 : R)
    (m : nat -> nat -> nat -> dual R) (rap : dual R),
  DR3 M t0 m ->
  DR Rap t0 rap ->
  forall (sym : bool) (Sp : R -> R) (sp : dual R) (i j d : nat),
  DR Sp t0 sp ->
  ref_axis npx (Rap t0) (M t0) npy 1 - ref_axis npx (Rap t0) (M t0) 0 1 <> 0 ->
  DR (fun t : R => stretch_mesh npx npy sym (Rap t) (Sp t) (M t) i j d) t0
    (stretch_mesh npx npy sym rap sp m i j d).
Proof. exact stretch_mesh_DR. Qed.
Print Assumptions C01_Stretch.

Theorem C01_Rotate :
  forall (npx npy : nat) (M : R -> nat -> nat -> nat -> R) (Rap : R -> R) (t0 : R)
    (m : nat -> nat -> nat -> dual R) (rap : dual R),
  DR3 M t0 m ->
  DR Rap t0 rap ->
  forall (sym rx : bool) (Tw : R -> nat -> R) (tw : nat -> dual R) (i j d : nat),
  DR1 Tw t0 tw ->
  (forall k : nat, dy_ok npx M Rap t0 k) ->
  DR (fun t : R => rotate_mesh npx npy sym rx (Rap t) (Tw t) (M t) i j d) t0
    (rotate_mesh npx npy sym rx rap tw m i j d).
Proof. exact rotate_mesh_DR. Qed.
Print Assumptions C01_Rotate.

Theorem C01_RadiusComp :
  forall (npx : nat) (M : R -> nat -> nat -> nat -> R) (Tc : R -> nat -> R) (t0 : R)
    (m : nat -> nat -> nat -> dual R) (tc : nat -> dual R) (j : nat),
  DR3 M t0 m ->
  DR1 Tc t0 tc ->
  chord_pos npx (M t0) j ->
  chord_pos npx (M t0) (S j) -> DR (fun t : R => radius_comp npx (M t) (Tc t) j) t0 (radius_comp npx m tc j).
Proof. exact radius_comp_DR. Qed.
Print Assumptions C01_RadiusComp.

Theorem C01_MonotonicConstraint :
  forall (npy : nat) (sym : bool) (X : R -> nat -> R) (t0 : R) (x : nat -> dual R) (j : nat),
  DR1 X t0 x -> DR (fun t : R => monotonic npy sym (X t) j) t0 (monotonic npy sym x j).
Proof. exact monotonic_DR. Qed.
Print Assumptions C01_MonotonicConstraint.

Theorem C01_Energy :
  forall (ny : nat) (Dp Ld : R -> nat -> nat -> R) (t0 : R) (dp ld : nat -> nat -> dual R),
  DR2 Dp t0 dp -> DR2 Ld t0 ld -> DR (fun t : R => energy ny (Dp t) (Ld t)) t0 (energy ny dp ld).
Proof. exact energy_DR. Qed.
Print Assumptions C01_Energy.

(* multi-section wings: any number of sections, with and without the leading-edge shift *)
Theorem C01_GeomMultiUnification :
  forall (shift : bool) (S : list (nat * (R -> nat -> nat -> nat -> R)))
    (s : list (nat * (nat -> nat -> nat -> dual R))) (t0 : R) (i j d : nat),
  DRsecs S t0 s -> DR (fun t : R => fst (unify shift (at_secs t S)) i j d) t0 (fst (unify shift s) i j d).
Proof. exact unify_DR. Qed.
Print Assumptions C01_GeomMultiUnification.

Theorem C01_GeomMultiJoin :
  forall (npx nye : nat) (Me Mn : R -> nat -> nat -> nat -> R) (t0 : R) (me mn : nat -> nat -> nat -> dual R)
    (r d : nat),
  DR3 Me t0 me ->
  DR3 Mn t0 mn -> DR (fun t : R => join_sep npx nye (Me t) (Mn t) r d) t0 (join_sep npx nye me mn r d).
Proof. exact join_sep_DR. Qed.
Print Assumptions C01_GeomMultiJoin.

