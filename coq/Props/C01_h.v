(* C01 - analytic component derivatives equal the true derivatives.  Property theorems only (statements printed by Coq from the libraries Real/*Deriv.v).  DR g t0 p  :=  g t0 = fst p /\ is_derive g t0 (snd p);  every theorem says: along ANY differentiable curve of the inputs, the dual-number evaluation of the component model gives the value and the derivative - hence every partial derivative (C01_dual_number_tangent_is_the_partial_derivative) and, by composition, every chain of components (part 8) *)
From Coq Require Import Reals ZArith Lra Lia Arith Bool List String.
From Coquelicot Require Import Coquelicot.
From OAS Require Import Scalar Rops Sums Deriv Dual DualProofs Drag DragDeriv Stress StressDeriv StressProofs Transfer TransferDeriv Loads LoadsDeriv Functionals FunctionalsDeriv Aero AeroDeriv PG PGDeriv Beam BeamTables BeamDeriv Geom GeomDeriv Misc MiscDeriv MultiSec MultiSecDeriv Wingbox WingboxDeriv Small SmallDeriv Mphys MphysDeriv.
Open Scope R_scope.

Theorem C01_Stretch :
  forall (npx npy : nat) (M : R -> nat -> nat -> nat -> R) (Rap : R -> R) (t0 : R)
    (m : nat -> nat -> nat -> dual R) (rap : dual R),
  DR3 M t0 m ->
  DR Rap t0 rap ->
  forall (sym : bool) (Sp : R -> R) (sp : dual R) (i j d : nat),
  DR Sp t0 sp ->
  ref_axis npx (Rap t0) (M t0) npy 1 - ref_axis npx (Rap t0) (M t0) 0 1 <> 0 ->
  DR (fun t : R => stretch_mesh npx npy sym (Rap t) (Sp t) (M t) i j d) t0
    (stretch_mesh npx npy sym rap sp m i j d).
Proof. exact stretch_mesh_DR. Qed.
Print Assumptions C01_Stretch.

Theorem C01_Rotate :
  forall (npx npy : nat) (M : R -> nat -> nat -> nat -> R) (Rap : R -> R) (t0 : R)
    (m : nat -> nat -> nat -> dual R) (rap : dual R),
  DR3 M t0 m ->
  DR Rap t0 rap ->
  forall (sym rx : bool) (Tw : R -> nat -> R) (tw : nat -> dual R) (i j d : nat),
  DR1 Tw t0 tw ->
  (forall k : nat, dy_ok npx M Rap t0 k) ->
  DR (fun t : R => rotate_mesh npx npy sym rx (Rap t) (Tw t) (M t) i j d) t0
    (rotate_mesh npx npy sym rx rap tw m i j d).
Proof. exact rotate_mesh_DR. Qed.
Print Assumptions C01_Rotate.

Theorem C01_RadiusComp :
  forall (npx : nat) (M : R -> nat -> nat -> nat -> R) (Tc : R -> nat -> R) (t0 : R)
    (m : nat -> nat -> nat -> dual R) (tc : nat -> dual R) (j : nat),
  DR3 M t0 m ->
  DR1 Tc t0 tc ->
  chord_pos npx (M t0) j ->
  chord_pos npx (M t0) (S j) -> DR (fun t : R => radius_comp npx (M t) (Tc t) j) t0 (radius_comp npx m tc j).
Proof. exact radius_comp_DR. Qed.
Print Assumptions C01_RadiusComp.

Theorem C01_MonotonicConstraint :
  forall (npy : nat) (sym : bool) (X : R -> nat -> R) (t0 : R) (x : nat -> dual R) (j : nat),
  DR1 X t0 x -> DR (fun t : R => monotonic npy sym (X t) j) t0 (monotonic npy sym x j).
Proof. exact monotonic_DR. Qed.
Print Assumptions C01_MonotonicConstraint.

Theorem C01_Energy :
  forall (ny : nat) (Dp Ld : R -> nat -> nat -> R) (t0 : R) (dp ld : nat -> nat -> dual R),
  DR2 Dp t0 dp -> DR2 Ld t0 ld -> DR (fun t : R => energy ny (Dp t) (Ld t)) t0 (energy ny dp ld).
Proof. exact energy_DR. Qed.
Print Assumptions C01_Energy.

(* multi-section wings: any number of sections, with and without the leading-edge shift *)
Theorem C01_GeomMultiUnification :
  forall (shift : bool) (S : list (nat * (R -> nat -> nat -> nat -> R)))
    (s : list (nat * (nat -> nat -> nat -> dual R))) (t0 : R) (i j d : nat),
  DRsecs S t0 s -> DR (fun t : R => fst (unify shift (at_secs t S)) i j d) t0 (fst (unify shift s) i j d).
Proof. exact unify_DR. Qed.
Print Assumptions C01_GeomMultiUnification.

Theorem C01_GeomMultiJoin :
  forall (npx nye : nat) (Me Mn : R -> nat -> nat -> nat -> R) (t0 : R) (me mn : nat -> nat -> nat -> dual R)
    (r d : nat),
  DR3 Me t0 me ->
  DR3 Mn t0 mn -> DR (fun t : R => join_sep npx nye (Me t) (Mn t) r d) t0 (join_sep npx nye me mn r d).
Proof. exact join_sep_DR. Qed.
Print Assumptions C01_GeomMultiJoin.

(* structures/section_properties_wingbox.py (partials declared by complex step): all eleven outputs, any number of airfoil points, at every admissible point (record wb_admissible: what the formulas divide by or take the root of) *)
Theorem C01_SectionPropertiesWingbox :
  forall (ns : nat) (dxu dyu dxl dyl : nat -> R) (toc0 : R) (Chord Spar Skin Toc Sw Theta : R -> R) 
    (t0 : R) (chord spar skin toc sw theta : dual R),
  DR Chord t0 chord ->
  DR Spar t0 spar ->
  DR Skin t0 skin ->
  DR Toc t0 toc ->
  DR Sw t0 sw ->
  DR Theta t0 theta ->
  wb_admissible ns dxu dyu dxl dyl toc0 (Chord t0) (Spar t0) (Skin t0) (Toc t0) (Sw t0) (Theta t0) ->
  forall k : nat,
  DR (fun t : R => wb_out ns dxu dyu dxl dyl toc0 (Chord t) (Spar t) (Skin t) (Toc t) (Sw t) (Theta t) k) t0
    (wb_out ns (cst dxu) (cst dyu) (cst dxl) (cst dyl) (dinj toc0) chord spar skin toc sw theta k).
Proof. exact wb_out_DR. Qed.
Print Assumptions C01_SectionPropertiesWingbox.

(* non-vacuity: a rectangular box satisfies wb_admissible *)
Theorem C01_SectionPropertiesWingbox_admissible_points_exist :
  wb_admissible 1 box_x box_yu box_x box_yl (12 / 100) 1 (1 / 100) (1 / 100) (12 / 100) 1 0.
Proof. exact wb_admissible_box. Qed.
Print Assumptions C01_SectionPropertiesWingbox_admissible_points_exist.

(* htop / hbottom: the max-shift of the KS function is immaterial (lse_shift), so ties in the airfoil ordinates are not a non-smooth point *)
Theorem C01_SectionPropertiesWingbox_extreme_fibre_needs_no_unique_maximum :
  forall (n : nat) (F : R -> nat -> R) (t0 : R) (f : nat -> dual R),
  DR1 F t0 f -> DR (fun t : R => ks_max n (F t)) t0 (ks_max n f).
Proof. exact ks_max_DR. Qed.
Print Assumptions C01_SectionPropertiesWingbox_extreme_fibre_needs_no_unique_maximum.

(* structures/wingbox_geometry.py (partials declared by finite differences) *)
Theorem C01_WingboxGeometry_streamwise_chords :
  forall (nx1 : nat) (Mesh : R -> nat -> nat -> nat -> R) (t0 : R) (mesh : nat -> nat -> nat -> dual R),
  DR3 Mesh t0 mesh ->
  forall e : nat,
  wg_chord_ok nx1 (Mesh t0) e ->
  wg_chord_ok nx1 (Mesh t0) (S e) -> DR (fun t : R => wg_sw nx1 (Mesh t) e) t0 (wg_sw nx1 mesh e).
Proof. exact wg_sw_DR. Qed.
Print Assumptions C01_WingboxGeometry_streamwise_chords.

Theorem C01_WingboxGeometry_fem_chords :
  forall (nx1 : nat) (Mesh : R -> nat -> nat -> nat -> R) (t0 : R) (mesh : nat -> nat -> nat -> dual R)
    (xu0 yu0 yl0 xun yun yln : R),
  DR3 Mesh t0 mesh ->
  yu0 - yl0 + (yun - yln) <> 0 ->
  forall e : nat,
  wg_chord_ok nx1 (Mesh t0) e ->
  wg_chord_ok nx1 (Mesh t0) (S e) ->
  wg_elem_ok nx1 Mesh t0 xu0 yu0 yl0 xun yun yln e ->
  DR (fun t : R => wg_fem_chord nx1 (Mesh t) xu0 yu0 yl0 xun yun yln e) t0
    (wg_fem_chord nx1 mesh (dinj xu0) (dinj yu0) (dinj yl0) (dinj xun) (dinj yun) (dinj yln) e).
Proof. exact wg_fem_chord_DR. Qed.
Print Assumptions C01_WingboxGeometry_fem_chords.

