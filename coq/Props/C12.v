(* C12 - the coupled aerostructural state is a consistent, path-independent fixed point.  Property theorems only (Real/CouplingProofs.v) *)
From Coq Require Import Reals ZArith Lra Lia Arith Bool List.
From Coquelicot Require Import Coquelicot.
From OAS Require Import Scalar Rops Sums Coupling CouplingProofs Transfer TransferProofs.
Open Scope R_scope.

(* u = S(A(u)) iff (loads = A(u) and u = S(loads)): at convergence the loads are those of the flow about the mesh deformed by u, and u is the response to these loads *)
Theorem C12_fixed_point_of_the_sweep_is_consistent_in_both_disciplines :
  forall (nu nl : nat) (A S : vec -> vec) (u : vec), eqn nu u (S (A u)) <-> consistent nu nl A S u (A u).
Proof. exact fixed_point_is_consistent. Qed.
Print Assumptions C12_fixed_point_of_the_sweep_is_consistent_in_both_disciplines.

(* a contractive coupling has at most one fixed point, whatever solver, initial guess or history found it (state vectors of any size) *)
Theorem C12_fixed_point_unique_hence_path_independent :
  forall (n : nat) (q : R) (G : vec -> vec) (x y : vec),
  contraction n q G -> eqn n x (G x) -> eqn n y (G y) -> eqn n x y.
Proof. exact fixed_point_unique. Qed.
Print Assumptions C12_fixed_point_unique_hence_path_independent.

(* two states converged to tolerance eps (block Gauss-Seidel with / without Aitken, Newton, any linear solver) differ by at most 2 eps / (1 - q) *)
Theorem C12_converged_states_agree_to_tolerance :
  forall (n : nat) (q eps : R) (G : vec -> vec) (x y : vec),
  contraction n q G -> converged n eps G x -> converged n eps G y -> dist n x y <= 2 * eps / (1 - q).
Proof. exact converged_states_agree. Qed.
Print Assumptions C12_converged_states_agree_to_tolerance.

(* the state of a flight point is a function of that point's inputs alone *)
Theorem C12_flight_points_isolated :
  forall (n : nat) (q : R) (G : nat -> vec -> vec -> vec) (inp inp' st st' : nat -> vec) (i : nat),
  (forall p : vec, contraction n q (G i p)) ->
  inp i = inp' i ->
  eqn n (st i) (G i (inp i) (st i)) -> eqn n (st' i) (G i (inp' i) (st' i)) -> eqn n (st i) (st' i).
Proof. exact multipoint_isolated. Qed.
Print Assumptions C12_flight_points_isolated.

(* scaling the stiffness by k scales the displacements by 1/k ... *)
Theorem C12_stiffness_scaling :
  forall (n : nat) (K : nat -> nat -> R) (u f : vec) (k : R),
  k <> 0 ->
  (forall p : nat, (p < n)%nat -> rsum n (fun q : nat => K p q * u q) = f p) ->
  forall p : nat, (p < n)%nat -> rsum n (fun q : nat => k * K p q * (u q / k)) = f p.
Proof. exact stiff_structure_small_displacement. Qed.
Print Assumptions C12_stiffness_scaling.

(* ... which vanish as k grows; with zero displacement the displacement transfer is the identity (C11_disp_zero_identity), i.e. the rigid analysis *)
Theorem C12_stiff_limit :
  forall u1 k : R, 0 < k -> Rabs (u1 / k) = Rabs u1 / k.
Proof. exact stiff_limit. Qed.
Print Assumptions C12_stiff_limit.


