(* C01 - analytic component derivatives equal the true derivatives.  Property theorems only (statements printed by Coq from the libraries Real/*Deriv.v).  DR g t0 p  :=  g t0 = fst p /\ is_derive g t0 (snd p);  every theorem says: along ANY differentiable curve of the inputs, the dual-number evaluation of the component model gives the value and the derivative - hence every partial derivative (C01_dual_number_tangent_is_the_partial_derivative) and, by composition, every chain of components (part 9) *)
From Coq Require Import Reals ZArith Lra Lia Arith Bool List String.
From Coquelicot Require Import Coquelicot.
From OAS Require Import Scalar Rops Sums Deriv Dual DualProofs Drag DragDeriv Stress StressDeriv StressProofs Transfer TransferDeriv Loads LoadsDeriv Functionals FunctionalsDeriv Aero AeroDeriv PG PGDeriv Beam BeamTables BeamDeriv Geom GeomDeriv Misc MiscDeriv MultiSec MultiSecDeriv Wingbox WingboxDeriv.
Open Scope R_scope.

(* only where both end sections are twisted (wg_twisted): the arccosine twist measure has a kink at zero twist - finding F13 *)
Theorem C01_WingboxGeometry_fem_twists :
  forall (nx1 : nat) (Mesh : R -> nat -> nat -> nat -> R) (t0 : R) (mesh : nat -> nat -> nat -> dual R)
    (xu0 yu0 yl0 xun yun yln : R),
  DR3 Mesh t0 mesh ->
  yu0 - yl0 + (yun - yln) <> 0 ->
  forall e : nat,
  wg_chord_ok nx1 (Mesh t0) e ->
  wg_chord_ok nx1 (Mesh t0) (S e) ->
  wg_elem_ok nx1 Mesh t0 xu0 yu0 yl0 xun yun yln e ->
  wg_twisted nx1 (Mesh t0) e ->
  wg_twisted nx1 (Mesh t0) (S e) ->
  wg_fem_chord nx1 (Mesh t0) xu0 yu0 yl0 xun yun yln e <> 0 ->
  DR (fun t : R => wg_fem_twist nx1 (Mesh t) xu0 yu0 yl0 xun yun yln e) t0
    (wg_fem_twist nx1 mesh (dinj xu0) (dinj yu0) (dinj yl0) (dinj xun) (dinj yun) (dinj yln) e).
Proof. exact wg_fem_twist_DR. Qed.
Print Assumptions C01_WingboxGeometry_fem_twists.

(* the hypothesis wg_twisted cannot be dropped: at an untwisted section (the default mesh) the twist measure is |twist|, which has no derivative; the code nevertheless reports one (finding F13, replayed on the implementation by the oracle WingboxGeometry.untwisted-sections) *)
Theorem C01_WingboxGeometry_twist_measure_refuted_at_zero_twist :
  forall c : R, 0 < c -> ~ ex_derive (fun z : R_AbsRing => wg_theta 1 (kink_mesh c z) 0) 0.
Proof. exact wg_theta_not_differentiable_at_zero_twist. Qed.
Print Assumptions C01_WingboxGeometry_twist_measure_refuted_at_zero_twist.

