(* C01 - analytic component derivatives equal the true derivatives.  Property theorems only (statements printed by Coq from the libraries Real/*Deriv.v).  DR g t0 p  :=  g t0 = fst p /\ is_derive g t0 (snd p);  every theorem says: along ANY differentiable curve of the inputs, the dual-number evaluation of the component model gives the value and the derivative - hence every partial derivative (C01_dual_number_tangent_is_the_partial_derivative) and, by composition, every chain of components (part 9) *)
From Coq Require Import Reals ZArith Lra Lia Arith Bool List String.
From Coquelicot Require Import Coquelicot.
From OAS Require Import Scalar Rops Sums Deriv Dual DualProofs Drag DragDeriv Stress StressDeriv StressProofs Transfer TransferDeriv Loads LoadsDeriv Functionals FunctionalsDeriv Aero AeroDeriv PG PGDeriv Beam BeamTables BeamDeriv Geom GeomDeriv Misc MiscDeriv MultiSec MultiSecDeriv Wingbox WingboxDeriv Small SmallDeriv Mphys MphysDeriv.
Open Scope R_scope.

(* only where both end sections are twisted (wg_twisted): the arccosine twist measure has a kink at zero twist - finding F13 *)
Theorem C01_WingboxGeometry_fem_twists :
  forall (nx1 : nat) (Mesh : R -> nat -> nat -> nat -> R) (t0 : R) (mesh : nat -> nat -> nat -> dual R)
    (xu0 yu0 yl0 xun yun yln : R),
  DR3 Mesh t0 mesh ->
  yu0 - yl0 + (yun - yln) <> 0 ->
  forall e : nat,
  wg_chord_ok nx1 (Mesh t0) e ->
  wg_chord_ok nx1 (Mesh t0) (S e) ->
  wg_elem_ok nx1 Mesh t0 xu0 yu0 yl0 xun yun yln e ->
  wg_twisted nx1 (Mesh t0) e ->
  wg_twisted nx1 (Mesh t0) (S e) ->
  wg_fem_chord nx1 (Mesh t0) xu0 yu0 yl0 xun yun yln e <> 0 ->
  DR (fun t : R => wg_fem_twist nx1 (Mesh t) xu0 yu0 yl0 xun yun yln e) t0
    (wg_fem_twist nx1 mesh (dinj xu0) (dinj yu0) (dinj yl0) (dinj xun) (dinj yun) (dinj yln) e).
Proof. exact wg_fem_twist_DR. Qed.
Print Assumptions C01_WingboxGeometry_fem_twists.

(* structures/spar_within_wing.py: mesh, radius AND t_over_c *)
Theorem C01_SparWithinWing :
  forall (nx1 : nat) (Mesh : R -> nat -> nat -> nat -> R) (Rad Toc : R -> nat -> R) 
    (t0 : R) (mesh : nat -> nat -> nat -> dual R) (rad toc : nat -> dual R) (e : nat),
  DR3 Mesh t0 mesh ->
  DR1 Rad t0 rad ->
  DR1 Toc t0 toc ->
  wg_chord_ok nx1 (Mesh t0) e ->
  wg_chord_ok nx1 (Mesh t0) (S e) ->
  DR (fun t : R => spar_within_wing nx1 (Mesh t) (Rad t) (Toc t) e) t0 (spar_within_wing nx1 mesh rad toc e).
Proof. exact spar_within_wing_DR. Qed.
Print Assumptions C01_SparWithinWing.

(* what the unrepaired component reported (no declared partial, i.e. zero) was wrong: fixed finding F14 *)
Theorem C01_SparWithinWing_t_over_c_partial_is_not_zero :
  forall (nx1 : nat) (m : nat -> nat -> nat -> R) (rad toc : nat -> R) (e : nat),
  wg_sw nx1 m e <> 0 ->
  forall l : R_NormedModule,
  is_derive (fun x : R_AbsRing => spar_within_wing nx1 m rad (upd1 toc e x) e) (toc e) l -> l <> 0.
Proof. exact spar_within_wing_toc_partial_nonzero. Qed.
Print Assumptions C01_SparWithinWing_t_over_c_partial_is_not_zero.

Theorem C01_TotalLift :
  forall (CL1 : R -> R) (t0 : R) (cl1 : dual R) (CL0 : R),
  DR CL1 t0 cl1 -> DR (fun t : R => total_lift CL0 (CL1 t)) t0 (total_lift (dinj CL0) cl1).
Proof. exact total_lift_DR. Qed.
Print Assumptions C01_TotalLift.

(* integration/multipoint_comps.py, any number of flight points *)
Theorem C01_MultiCD :
  forall (n : nat) (CD : R -> nat -> R) (t0 : R) (cd : nat -> dual R),
  DR1 CD t0 cd -> DR (fun t : R => multi_cd n (CD t)) t0 (multi_cd n cd).
Proof. exact multi_cd_DR. Qed.
Print Assumptions C01_MultiCD.

(* the block of the global panel-force array of one surface (offset = panels of the surfaces before it) *)
Theorem C01_PanelForcesSurf :
  forall (offset npy : nat) (PF : R -> nat -> nat -> R) (t0 : R) (pf : nat -> nat -> dual R) (i j d : nat),
  DR2 PF t0 pf ->
  DR (fun t : R => panel_forces_surf offset npy (PF t) i j d) t0 (panel_forces_surf offset npy pf i j d).
Proof. exact panel_forces_surf_DR. Qed.
Print Assumptions C01_PanelForcesSurf.

(* mphys/demux_surface_mesh.py (matrix-free: the forward product applies the same gather to the perturbation; reverse mode = transpose is C19_mux_demux_adjoint) *)
Theorem C01_DemuxSurfaceMesh :
  forall (sizes : list nat) (X : R -> nat -> R) (t0 : R) (x : nat -> R * R) (s k : nat),
  (forall p : nat, DR (fun t : R => X t p) t0 (x p)) ->
  DR (fun t : R => demux sizes (X t) s k) t0 (demux sizes x s k).
Proof. exact demux_DR. Qed.
Print Assumptions C01_DemuxSurfaceMesh.

(* mphys/mux_surface_forces.py, any number of surfaces *)
Theorem C01_MuxSurfaceForces :
  forall (sizes : list nat) (B : R -> nat -> nat -> R) (t0 : R) (b : nat -> nat -> R * R) (p : nat),
  (forall s k : nat, DR (fun t : R => B t s k) t0 (b s k)) ->
  DR (fun t : R => mux sizes (B t) p) t0 (mux sizes b p).
Proof. exact mux_DR. Qed.
Print Assumptions C01_MuxSurfaceForces.

(* the hypothesis wg_twisted cannot be dropped: at an untwisted section (the default mesh) the twist measure is |twist|, which has no derivative; the code nevertheless reports one (finding F13, replayed on the implementation by the oracle WingboxGeometry.untwisted-sections) *)
Theorem C01_WingboxGeometry_twist_measure_refuted_at_zero_twist :
  forall c : R, 0 < c -> ~ ex_derive (fun z : R_AbsRing => wg_theta 1 (kink_mesh c z) 0) 0.
Proof. exact wg_theta_not_differentiable_at_zero_twist. Qed.
Print Assumptions C01_WingboxGeometry_twist_measure_refuted_at_zero_twist.

