(* Misc.v — models of geometry/radius_comp.py, geometry/monotonic_constraint.py, structures/energy.py,
   aerodynamics/lift_coeff_2D.py.  mesh i j d with i <= npx, j <= npy. *)
From Coq Require Import ZArith List Arith Bool.
From OAS Require Import Scalar.

Section Misc.
  Context {T : Type} {K : Ops T}.

  (* RadiusComp: radius[j] = t_over_c[j] * (0.5 chord[j] + 0.5 chord[j+1]) * 0.5 *)
  Definition rc_chord (npx : nat) (mesh : nat -> nat -> nat -> T) (j : nat) : T :=
    osqrt (osq (mesh npx j 0 -! mesh 0 j 0) +! osq (mesh npx j 1 -! mesh 0 j 1) +! osq (mesh npx j 2 -! mesh 0 j 2)).
  Definition radius_comp (npx : nat) (mesh : nat -> nat -> nat -> T) (toc : nat -> T) (j : nat) : T :=
    toc j *! (ohalf *! rc_chord npx mesh j +! ohalf *! rc_chord npx mesh (S j)) *! ohalf.

  (* MonotonicConstraint: differences of neighbours, sign flipped on the right half of a full span *)
  Definition monotonic (npy : nat) (sym : bool) (x : nat -> T) (j : nat) : T :=
    let d := x j -! x (S j) in
    if sym then d else if (j <? npy / 2)%nat then d else oopp d.

  (* Energy: sum of disp * loads over [ny, 6] *)
  Definition energy (ny : nat) (disp loads : nat -> nat -> T) : T :=
    sumn ny (fun j => sumn 6 (fun c => disp j c *! loads j c)).

  (* LiftCoeff2D *)
  Definition lift_coeff_2d (npx : nat) (alpha_deg rho v : T) (F : nat -> nat -> nat -> T) (widths chords : nat -> T) (j : nat) : T :=
    let a := alpha_deg *! opi /! #180 in
    let fx := sumn npx (fun i => F i j 0) in let fz := sumn npx (fun i => F i j 2) in
    let l := (oopp fx *! osin a +! fz *! ocos a) /! widths j in
    let c := ohalf *! (chords (S j) +! chords j) in
    l /! (ohalf *! rho *! (v *! v) *! c).
End Misc.
