(* Geom.v — models of geometry/geometry_mesh_transformations.py (the nine mesh transformations) and of
   the fixed chain of geometry/geometry_mesh.py.
   mesh i j d with i <= npx (chordwise), j <= npy (spanwise).  For symmetric surfaces the code takes the
   LAST spanwise index as the root. *)
From Coq Require Import ZArith List Arith Bool.
From OAS Require Import Scalar.

Section Geom.
  Context {T : Type} {K : Ops T}.
  Variables (npx npy : nat).

  Definition ref_axis (rap : T) (m : nat -> nat -> nat -> T) (j d : nat) : T :=
    rap *! m npx j d +! (o1 -! rap) *! m 0 j d.

  (* np.interp on the two / three point tables used by Taper (xp increasing), with end clamping *)
  Definition interp2 (x x0 x1 f0 f1 : T) : T :=
    if x <=!? x0 then f0 else if x1 <=!? x then f1
    else f0 +! (f1 -! f0) *! ((x -! x0) /! (x1 -! x0)).       (* numpy: slope * (x - x0) + f0 *)
  Definition interp3 (x x0 x1 x2 f0 f1 f2 : T) : T :=
    if x <=!? x0 then f0 else if x2 <=!? x then f2
    else if x <!? x1 then f0 +! (f1 -! f0) *! ((x -! x0) /! (x1 -! x0))
    else f1 +! (f2 -! f1) *! ((x -! x1) /! (x2 -! x1)).

  (* ---------------- Taper (acts on the surface's ORIGINAL mesh m0) ---------------- *)
  Definition taper_factor (sym : bool) (rap taper : T) (m0 : nat -> nat -> nat -> T) (j : nat) : T :=
    let x := ref_axis rap m0 j 1 in
    let span := ref_axis rap m0 npy 1 -! ref_axis rap m0 0 1 in
    if sym then interp2 x (oopp span) o0 taper o1
    else interp3 x (oopp span /! o2) o0 (span /! o2) taper o1 taper.
  Definition taper_mesh (sym : bool) (rap taper : T) (m0 : nat -> nat -> nat -> T) (i j d : nat) : T :=
    (m0 i j d -! ref_axis rap m0 j d) *! taper_factor sym rap taper m0 j +! ref_axis rap m0 j d.

  (* ---------------- ScaleX ---------------- *)
  Definition scalex_mesh (rap : T) (chord : nat -> T) (m : nat -> nat -> nat -> T) (i j d : nat) : T :=
    (m i j d -! ref_axis rap m j d) *! chord j +! ref_axis rap m j d.

  (* ---------------- Sweep / Dihedral: shear x (resp. z) with distance from the root ---------------- *)
  Definition root_shear (sym : bool) (angle_deg : T) (m : nat -> nat -> nat -> T) (j : nat) : T :=
    let tan_t := otan (opi /! #180 *! angle_deg) in
    if sym then oopp (m 0 j 1 -! m 0 npy 1) *! tan_t
    else
      let r := npy / 2 in
      if (j <? r)%nat then oopp (m 0 j 1 -! m 0 r 1) *! tan_t else (m 0 j 1 -! m 0 r 1) *! tan_t.
  Definition sweep_mesh (sym : bool) (sweep : T) (m : nat -> nat -> nat -> T) (i j d : nat) : T :=
    if (d =? 0)%nat then m i j d +! root_shear sym sweep m j else m i j d.
  Definition dihedral_mesh (sym : bool) (dih : T) (m : nat -> nat -> nat -> T) (i j d : nat) : T :=
    if (d =? 2)%nat then m i j d +! root_shear sym dih m j else m i j d.

  (* ---------------- shears ---------------- *)
  Definition shear_mesh (axis : nat) (sh : nat -> T) (m : nat -> nat -> nat -> T) (i j d : nat) : T :=
    if (d =? axis)%nat then m i j d +! sh j else m i j d.

  (* ---------------- Stretch: sets y of every chordwise point of column j ---------------- *)
  Definition stretch_mesh (sym : bool) (rap span : T) (m : nat -> nat -> nat -> T) (i j d : nat) : T :=
    let sp := if sym then span /! o2 else span in
    let prev := ref_axis rap m npy 1 -! ref_axis rap m 0 1 in
    if (d =? 1)%nat then ref_axis rap m j 1 /! prev *! sp else m i j d.

  (* ---------------- Rotate: twist about y, preceded by a dihedral-following rotation about x ---------------- *)
  Definition seg_theta_x (rap : T) (m : nat -> nat -> nat -> T) (j : nat) : T :=
    oatan ((ref_axis rap m j 2 -! ref_axis rap m (S j) 2) /! (ref_axis rap m j 1 -! ref_axis rap m (S j) 1)).
  Definition theta_x (sym rotate_x : bool) (rap : T) (m : nat -> nat -> nat -> T) (j : nat) : T :=
    if rotate_x then
      (if sym then (if (j <? npy)%nat then seg_theta_x rap m j else o0)
       else let r := npy / 2 in
            if (j <? r)%nat then seg_theta_x rap m j
            else if (j =? r)%nat then o0
            else oatan ((ref_axis rap m j 2 -! ref_axis rap m (j - 1) 2) /! (ref_axis rap m j 1 -! ref_axis rap m (j - 1) 1)))
    else o0.
  Definition rot_mat (tx ty : T) (a b : nat) : T :=
    match a, b with
    | 0, 0 => ocos ty | 0, 2 => osin ty
    | 1, 0 => osin tx *! osin ty | 1, 1 => ocos tx | 1, 2 => oopp (osin tx) *! ocos ty
    | 2, 0 => oopp (ocos tx) *! osin ty | 2, 1 => osin tx | 2, 2 => ocos tx *! ocos ty
    | _, _ => o0
    end.
  Definition rotate_mesh (sym rotate_x : bool) (rap : T) (twist_deg : nat -> T) (m : nat -> nat -> nat -> T) (i j d : nat) : T :=
    let tx := theta_x sym rotate_x rap m j in let ty := twist_deg j *! opi /! #180 in
    sumn 3 (fun k => rot_mat tx ty d k *! (m i j k -! ref_axis rap m j k)) +! ref_axis rap m j d.

  (* ---------------- the chain of GeometryMesh.setup ---------------- *)
  Record DVs := mkDVs {
    dv_taper : T; dv_chord : nat -> T; dv_sweep : T; dv_xshear : nat -> T; dv_span : T;
    dv_yshear : nat -> T; dv_dihedral : T; dv_zshear : nat -> T; dv_twist : nat -> T }.
  Definition geometry_mesh (sym : bool) (rap : T) (dv : DVs) (m0 : nat -> nat -> nat -> T) : nat -> nat -> nat -> T :=
    let m1 := taper_mesh sym rap (dv_taper dv) m0 in
    let m2 := scalex_mesh rap (dv_chord dv) m1 in
    let m3 := sweep_mesh sym (dv_sweep dv) m2 in
    let m4 := shear_mesh 0 (dv_xshear dv) m3 in
    let m5 := stretch_mesh sym rap (dv_span dv) m4 in
    let m6 := shear_mesh 1 (dv_yshear dv) m5 in
    let m7 := dihedral_mesh sym (dv_dihedral dv) m6 in
    let m8 := shear_mesh 2 (dv_zshear dv) m7 in
    rotate_mesh sym true rap (dv_twist dv) m8.
  (* default span: the current span of the reference axis (doubled for a symmetric half) *)
  Definition current_span (sym : bool) (rap : T) (m0 : nat -> nat -> nat -> T) (ymax ymin : T) : T :=
    if sym then (ymax -! ymin) *! o2 else ymax -! ymin.
End Geom.
