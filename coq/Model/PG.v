(* PG.v — models of aerodynamics/{pg_wind_rotation,pg_scale}.py (Prandtl-Glauert transformation). *)
From Coq Require Import ZArith List Arith.
From OAS Require Import Scalar.

Section PG.
  Context {T : Type} {K : Ops T}.

  (* aero -> wind frame matrix Tw(alpha, beta), angles in radians *)
  Definition Tw (a b : T) (r c : nat) : T :=
    let ca := ocos a in let sa := osin a in let cb := ocos b in let sb := osin b in
    match r, c with
    | 0, 0 => cb *! ca | 0, 1 => oopp sb | 0, 2 => cb *! sa
    | 1, 0 => sb *! ca | 1, 1 => cb      | 1, 2 => sb *! sa
    | 2, 0 => oopp sa  | 2, 1 => o0      | 2, 2 => ca
    | _, _ => o0
    end.
  Definition to_wind (a b : T) (v : nat -> T) (l : nat) : T := sumn 3 (fun k => Tw a b l k *! v k).
  Definition from_wind (a b : T) (v : nat -> T) (l : nat) : T := sumn 3 (fun k => Tw a b k l *! v k).

  Definition betaPG (M : T) : T := osqrt (o1 -! M *! M).
  Definition pg_point (M : T) (v : nat -> T) (d : nat) : T := if (d =? 0)%nat then v d else v d *! betaPG M.
  Definition pg_normal (M : T) (v : nat -> T) (d : nat) : T := if (d =? 0)%nat then v d *! betaPG M else v d.
  Definition pg_rotvel (M : T) (v : nat -> T) (d : nat) : T :=
    if (d =? 0)%nat then v d *! (betaPG M *! betaPG M) else v d *! betaPG M.
  Definition p3b (b : T) : T := b *! b *! b.
  Definition pg_force_back (M : T) (F : nat -> T) (d : nat) : T :=
    let b := betaPG M in
    if (d =? 0)%nat then F d *! (o1 /! (osq (osq b))) else F d *! (o1 /! p3b b).

  (* the whole transformation of the compressible states group, around an incompressible solver
     [solve : meshes/points in the PG domain -> sectional force] *)
  Definition pg_forward_point (a b M : T) (v : nat -> T) : nat -> T := pg_point M (to_wind a b v).
  Definition pg_forward_normal (a b M : T) (v : nat -> T) : nat -> T := pg_normal M (to_wind a b v).
  Definition pg_backward_force (a b M : T) (F : nat -> T) : nat -> T := from_wind a b (pg_force_back M F).
End PG.
