(* Atmos.v — model of common/atmos_comp.py: Akima interpolation (scipy's Akima1DInterpolator,
   method "akima", no extrapolation) of the generated 1976 standard-atmosphere table. *)
From Coq Require Import ZArith List Arith.
From OAS Require Import Scalar.
Import ListNotations.

Section Akima.
  Context {T : Type} {K : Ops T}.
  Variables (x y : nat -> T).
  Variable n : nat.                     (* number of knots, n >= 4 *)

  Definition ak_slope (k : nat) : T := (y (S k) -! y k) /! (x (S k) -! x k).
  (* scipy's extended slope array m[0 .. n+2]; m[i+2] is the slope of interval i *)
  Definition ak_m (i : nat) : T :=
    let s0 := ak_slope 0 in let s1 := ak_slope 1 in
    let sa := ak_slope (n - 2) in let sb := ak_slope (n - 3) in
    if (i =? 0)%nat then o2 *! (o2 *! s0 -! s1) -! s0
    else if (i =? 1)%nat then o2 *! s0 -! s1
    else if (i <=? n)%nat then ak_slope (i - 2)
    else if (i =? n + 1)%nat then o2 *! sa -! sb
    else o2 *! (o2 *! sa -! sb) -! sa.
  Definition ak_f1 (k : nat) : T := oabs (ak_m (k + 3) -! ak_m (k + 2)).
  Definition ak_f2 (k : nat) : T := oabs (ak_m (k + 1) -! ak_m k).
  Definition ak_f12 (k : nat) : T := ak_f1 k +! ak_f2 k.
  Definition ak_break : T := ofrac 1 1000000000.
  (* knot derivative; mmax is passed in so that execution can compute it once *)
  Definition ak_t (mmax : T) (k : nat) : T :=
    if ak_break *! mmax <!? ak_f12 k
    then ak_m (k + 1) +! ak_f2 k /! ak_f12 k *! (ak_m (k + 2) -! ak_m (k + 1))
    else ohalf *! (ak_m (k + 3) +! ak_m k).
  Definition ak_mmax : T := maxn (n - 1) ak_f12.

  (* cubic Hermite piece k (scipy CubicHermiteSpline coefficients), for any knot derivatives t *)
  Section Piece.
    Variable t : nat -> T.
    Definition hp_dx (k : nat) : T := x (S k) -! x k.
    Definition hp_c0 (k : nat) : T := (t k +! t (S k) -! o2 *! ak_slope k) /! hp_dx k /! hp_dx k.
    Definition hp_c1 (k : nat) : T := (ak_slope k -! t k) /! hp_dx k -! (t k +! t (S k) -! o2 *! ak_slope k) /! hp_dx k.
    Definition hp_val (k : nat) (h : T) : T :=
      let s := h -! x k in ((hp_c0 k *! s +! hp_c1 k) *! s +! t k) *! s +! y k.
    Definition hp_der (k : nat) (h : T) : T :=
      let s := h -! x k in (#3 *! hp_c0 k *! s +! o2 *! hp_c1 k) *! s +! t k.
  End Piece.

  (* interval search: the largest k <= n-2 with x k <= h *)
  Fixpoint ak_find (fuel k : nat) (h : T) : nat :=
    match fuel with
    | O => k
    | S f => if (S k <? n - 1)%nat then (if x (S k) <=!? h then ak_find f (S k) h else k) else k
    end.
  Definition akima (h : T) : T :=
    let mm := ak_mmax in let k := ak_find n 0 h in hp_val (ak_t mm) k h.
  Definition akima_der (h : T) : T :=
    let mm := ak_mmax in let k := ak_find n 0 h in hp_der (ak_t mm) k h.
End Akima.
