(* RaiseSites.v — the rejection guards the decision model of Model/Setup.v was written from: every `raise` of the package
   with the chain of conditions that guards it, reviewed by hand against the property text (C20):
     - ground effect without symmetry            -> VortexMesh.setup, ValueError
     - even num_y from the mesh generator        -> geometry/utils.generate_mesh, ValueError, guard `not num_y % 2` ALONE
                                                    (no dependence on the symmetry flag or the wing type)
     - unknown wing type                         -> generate_mesh, NameError (neither 'rect' nor containing 'CRM')
     - unknown structural model type             -> four set-up methods, NameError
     - only one wing-box thickness distribution  -> SpatialBeamAlone.setup and AerostructGeometry.setup, NameError
     - multi-section lists of the wrong length   -> build_sections, six ValueErrors
   The list the translator regenerates from /repo on every run (Generated/RaiseSites.v) must be THIS list
   (Props/C20.v: C20_rejection_guards_are_the_reviewed_ones, by computation).  An edit that weakens, strengthens, moves
   or removes a guard changes the regenerated text and breaks that obligation; the enumeration stream and the rejection
   oracle then look for the set-up that is now accepted (or rejected) wrongly. *)
From Coq Require Import String List.
Import ListNotations.
Open Scope string_scope.
Definition reviewed_raise_sites : list (string * string * string * list string) := [
  ("aerodynamics/vortex_mesh.py", "VortexMesh.setup", "ValueError", ["loop: surface in surfaces"; "not (surface['symmetry'])"; "ground_effect"]);
  ("geometry/geometry_group.py", "build_sections", "ValueError", ["surface['meshes'] == 'gen-meshes'"; "len(surface['ny']) != num_sections"]);
  ("geometry/geometry_group.py", "build_sections", "ValueError", ["surface['meshes'] == 'gen-meshes'"; "len(surface['taper']) != num_sections"]);
  ("geometry/geometry_group.py", "build_sections", "ValueError", ["surface['meshes'] == 'gen-meshes'"; "len(surface['span']) != num_sections"]);
  ("geometry/geometry_group.py", "build_sections", "ValueError", ["surface['meshes'] == 'gen-meshes'"; "len(surface['sweep']) != num_sections"]);
  ("geometry/geometry_group.py", "build_sections", "ValueError", ["not (surface['meshes'] == 'gen-meshes')"; "len(surface['meshes']) != num_sections"]);
  ("geometry/geometry_group.py", "build_sections", "ValueError", ["len(surface['sec_name']) != num_sections"]);
  ("geometry/geometry_mesh_gen.py", "generate_mesh", "Exception", ["not (symmetry or num_sections == 1)"; "'root_section' not in surface.keys()"]);
  ("geometry/multi_unified_bspline_utils.py", "build_multi_spline", "Exception", ["len(control_points) != num_sections"]);
  ("geometry/utils.py", "generate_mesh", "ValueError", ["not num_y % 2"]);
  ("geometry/utils.py", "generate_mesh", "NameError", ["not (surf_dict['wing_type'] == 'rect')"; "not ('CRM' in surf_dict['wing_type'])"]);
  ("geometry/utils.py", "generate_vsp_surfaces", "ImportError", ["vsp is None"]);
  ("geometry/utils.py", "getFullMesh", "ValueError", ["left_mesh is None and right_mesh is None"]);
  ("geometry/utils.py", "getFullMesh", "ValueError", ["not (left_mesh is None and right_mesh is None)"; "left_mesh is not None and right_mesh is not None"]);
  ("integration/aerostruct_groups.py", "AerostructGeometry.setup", "NameError", ["not (surface['fem_model_type'] == 'tube')"; "surface['fem_model_type'] == 'wingbox'"; "not ('skin_thickness_cp' in surface.keys() and 'spar_thickness_cp' in surface.keys())"; "'skin_thickness_cp' in surface.keys() or 'spar_thickness_cp' in surface.keys()"]);
  ("integration/aerostruct_groups.py", "AerostructGeometry.setup", "NameError", ["not (surface['fem_model_type'] == 'tube')"; "not (surface['fem_model_type'] == 'wingbox')"]);
  ("integration/aerostruct_groups.py", "CoupledPerformance.setup", "NameError", ["not (surface['fem_model_type'] == 'tube')"; "not (surface['fem_model_type'] == 'wingbox')"]);
  ("mphys/aero_builder.py", "AeroBuilder.__init__", "ImportError", ["not mphys_found"]);
  ("structures/spatial_beam_functionals.py", "SpatialBeamFunctionals.setup", "NameError", ["not (surface['fem_model_type'] == 'tube')"; "not (surface['fem_model_type'] == 'wingbox')"]);
  ("structures/struct_groups.py", "SpatialBeamAlone.setup", "NameError", ["not (surface['fem_model_type'] == 'tube')"; "surface['fem_model_type'] == 'wingbox'"; "not ('skin_thickness_cp' in surface.keys() and 'spar_thickness_cp' in surface.keys())"; "'skin_thickness_cp' in surface.keys() or 'spar_thickness_cp' in surface.keys()"]);
  ("structures/struct_groups.py", "SpatialBeamAlone.setup", "NameError", ["not (surface['fem_model_type'] == 'tube')"; "not (surface['fem_model_type'] == 'wingbox')"]);
  ("structures/utils.py", "cross_d", "ValueError", ["not isinstance(a, np.ndarray)"; "a.shape != (3,)"]);
  ("structures/utils.py", "cross_d", "ValueError", ["not isinstance(b, np.ndarray)"; "b.shape != (3,)"])
].
