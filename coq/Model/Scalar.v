(* Scalar.v — the class of scalar operations every model function is polymorphic in,
   and the generic array / sum / 3-vector vocabulary.  No proofs here (only definitions), so the
   executable model loads even when a proof elsewhere is broken. *)
From Coq Require Import ZArith List.
Import ListNotations.

Class Ops (T : Type) := mkOps {
  o0 : T; o1 : T;
  oadd : T -> T -> T; osub : T -> T -> T; omul : T -> T -> T; odiv : T -> T -> T;
  oopp : T -> T; oabs : T -> T; osqrt : T -> T;
  oexp : T -> T; oln : T -> T; osin : T -> T; ocos : T -> T; otan : T -> T;
  oatan : T -> T; oacos : T -> T;
  opow : T -> T -> T;               (* x ** y for x > 0 *)
  oofZ : Z -> T;                    (* integer literal *)
  opi : T;
  oltb : T -> T -> bool; oleb : T -> T -> bool; oeqb : T -> T -> bool
}.

Declare Scope ops_scope.
Delimit Scope ops_scope with o.
Infix "+!" := oadd (at level 50, left associativity).
Infix "-!" := osub (at level 50, left associativity).
Infix "*!" := omul (at level 40, left associativity).
Infix "/!" := odiv (at level 40, left associativity).
Infix "<!?" := oltb (at level 70, no associativity).
Infix "<=!?" := oleb (at level 70, no associativity).
Notation "'#' z" := (oofZ z%Z) (at level 9, z at level 9, format "'#' z").

Section Generic.
  Context {T : Type} {K : Ops T}.

  (* decimal literal  n/d , e.g. 0.455 = ofrac 455 1000 *)
  Definition ofrac (n : Z) (d : Z) : T := #n /! #d.
  Definition onat (n : nat) : T := oofZ (Z.of_nat n).
  Definition o2 : T := #2.
  Definition ohalf : T := ofrac 1 2.
  Definition osq (x : T) : T := x *! x.
  Definition iff0 (b : bool) (x : T) : T := if b then x else o0.
  Definition omax (a b : T) : T := if a <!? b then b else a.
  Definition omin (a b : T) : T := if a <!? b then a else b.

  (* sum_{i<n} f i, added left to right starting from 0 *)
  Fixpoint sumn (n : nat) (f : nat -> T) : T :=
    match n with
    | O => o0
    | S m => sumn m f +! f m
    end.

  (* maximum of f over i < S n *)
  Fixpoint maxn (n : nat) (f : nat -> T) : T :=
    match n with
    | O => f O
    | S m => omax (maxn m f) (f (S m))
    end.

  (* arrays as total functions; reading a list as an array *)
  Definition ofl (l : list T) : nat -> T := fun i => nth i l o0.
  Definition tab (n : nat) (f : nat -> T) : list T := map f (seq 0 n).

  (* 3-vectors as functions nat -> T on indices 0,1,2 *)
  Definition mk3 (x y z : T) : nat -> T :=
    fun d => match d with O => x | S O => y | _ => z end.
  Definition vadd (a b : nat -> T) : nat -> T := fun d => a d +! b d.
  Definition vsub (a b : nat -> T) : nat -> T := fun d => a d -! b d.
  Definition vscal (s : T) (a : nat -> T) : nat -> T := fun d => s *! a d.
  Definition vopp (a : nat -> T) : nat -> T := fun d => oopp (a d).
  Definition dot (a b : nat -> T) : T := a 0 *! b 0 +! a 1 *! b 1 +! a 2 *! b 2.
  Definition cross (a b : nat -> T) : nat -> T :=
    mk3 (a 1 *! b 2 -! a 2 *! b 1) (a 2 *! b 0 -! a 0 *! b 2) (a 0 *! b 1 -! a 1 *! b 0).
  Definition nrm (a : nat -> T) : T := osqrt (dot a a).
  Definition vzero : nat -> T := fun _ => o0.

  (* degrees -> radians, as OpenMDAO's unit conversion does (factor pi/180) *)
  Definition deg2rad (a : T) : T := a *! (opi /! #180).
End Generic.

Section Deltas.
  Context {T : Type} {K : Ops T}.
  (* unit arrays, used to read the dense Jacobian of a (multi)linear model off the model itself *)
  Definition delta1 (a : nat) : nat -> T := fun i => if (i =? a)%nat then o1 else o0.
  Definition delta2 (a b : nat) : nat -> nat -> T :=
    fun i j => if ((i =? a) && (j =? b))%nat%bool then o1 else o0.
  Definition delta3 (a b c : nat) : nat -> nat -> nat -> T :=
    fun i j k => if ((i =? a) && (j =? b) && (k =? c))%nat%bool then o1 else o0.
  Definition zero1 : nat -> T := fun _ => o0.
  Definition zero2 : nat -> nat -> T := fun _ _ => o0.
  Definition zero3 : nat -> nat -> nat -> T := fun _ _ _ => o0.
End Deltas.
