(* Functionals.v — models of functionals/{total_lift_drag,sum_areas,equilibrium,breguet_range,
   center_of_gravity,moment_coefficient}.py and common/reynolds_comp.py, v = M a of atmos_comp.py.
   Surfaces are a Coq list, so every theorem holds for any number of surfaces. *)
From Coq Require Import ZArith List Arith.
From OAS Require Import Scalar.
Import ListNotations.

Section Functionals.
  Context {T : Type} {K : Ops T}.

  (* sum over a list, added left to right starting from 0 (as the Python loops do) *)
  Definition lsum {A : Type} (l : list A) (f : A -> T) : T := fold_left (fun acc a => acc +! f a) l o0.

  (* ---------- SumAreas ---------- *)
  Definition sum_areas (S : list T) : T := lsum S (fun s => s).

  (* ---------- TotalLiftDrag: per surface (coefficient, S_ref) ---------- *)
  Definition weighted (cs : list (T * T)) : T := lsum cs (fun p => fst p *! snd p).
  Definition tld_force (cs : list (T * T)) (rho v : T) : T := weighted cs *! ohalf *! rho *! (v *! v).
  Definition tld_coeff (cs : list (T * T)) (S_tot : T) : T := weighted cs /! S_tot.
  (* partials *)
  Definition tld_dforce_drho (cs : list (T * T)) (v : T) : T := weighted cs *! ohalf *! (v *! v).
  Definition tld_dforce_dv (cs : list (T * T)) (rho v : T) : T := weighted cs *! rho *! v.
  Definition tld_dcoeff_dStot (cs : list (T * T)) (S_tot : T) : T := oopp (weighted cs) /! (S_tot *! S_tot).
  Definition tld_dcoeff_dC (S S_tot : T) : T := S /! S_tot.
  Definition tld_dcoeff_dS (C S_tot : T) : T := C /! S_tot.
  Definition tld_dforce_dC (S rho v : T) : T := ohalf *! rho *! (v *! v) *! S.
  Definition tld_dforce_dS (C rho v : T) : T := ohalf *! rho *! (v *! v) *! C.

  (* ---------- Equilibrium ---------- *)
  Definition eq_total_weight (g0 lf W0 fuelburn : T) (masses : list T) : T :=
    (lsum masses (fun m => m) +! fuelburn +! W0) *! (g0 *! lf).
  Definition eq_lift (rho v S CL : T) : T := (ohalf *! rho *! (v *! v) *! S) *! CL.
  Definition eq_LW (g0 lf W0 fuelburn : T) (masses : list T) (rho v S CL : T) : T :=
    o1 -! eq_lift rho v S CL /! eq_total_weight g0 lf W0 fuelburn masses.
  (* partials of L_equals_W *)
  Definition eq_dLW_dmass (g0 lf W0 fb : T) (ms : list T) (rho v S CL : T) : T :=
    let tw := eq_total_weight g0 lf W0 fb ms in eq_lift rho v S CL /! (tw *! tw) *! (g0 *! lf).
  Definition eq_dLW_dlf (g0 lf W0 fb : T) (ms : list T) (rho v S CL : T) : T :=
    let tw := eq_total_weight g0 lf W0 fb ms in
    eq_lift rho v S CL /! (tw *! tw) *! (fb +! W0 +! lsum ms (fun m => m)) *! g0.
  Definition eq_dLW_drho (g0 lf W0 fb : T) (ms : list T) (rho v S CL : T) : T :=
    oopp ohalf *! S *! (v *! v) *! CL /! eq_total_weight g0 lf W0 fb ms.
  Definition eq_dLW_dv (g0 lf W0 fb : T) (ms : list T) (rho v S CL : T) : T :=
    oopp rho *! S *! v *! CL /! eq_total_weight g0 lf W0 fb ms.
  Definition eq_dLW_dCL (g0 lf W0 fb : T) (ms : list T) (rho v S CL : T) : T :=
    oopp ohalf *! rho *! (v *! v) *! S /! eq_total_weight g0 lf W0 fb ms.
  Definition eq_dLW_dS (g0 lf W0 fb : T) (ms : list T) (rho v S CL : T) : T :=
    oopp ohalf *! rho *! (v *! v) *! CL /! eq_total_weight g0 lf W0 fb ms.
  Definition eq_dtw_dlf (g0 W0 fb : T) (ms : list T) : T := (fb +! W0 +! lsum ms (fun m => m)) *! g0.

  (* ---------- BreguetRange ---------- *)
  Definition br_arg (CT a R M CL CD : T) : T := R *! CT /! a /! M *! CD /! CL.
  Definition breguet (CT a R M W0 CL CD : T) (masses : list T) : T :=
    (W0 +! lsum masses (fun m => m)) *! (oexp (br_arg CT a R M CL CD) -! o1).
  Definition br_dCL CT a R M W0 CL CD (ms : list T) : T :=
    oopp (W0 +! lsum ms (fun m => m)) *! oexp (br_arg CT a R M CL CD) *! R *! CT /! a /! M *! CD /! (CL *! CL).
  Definition br_dCD CT a R M W0 CL CD (ms : list T) : T :=
    (W0 +! lsum ms (fun m => m)) *! oexp (br_arg CT a R M CL CD) *! R *! CT /! a /! M /! CL.
  Definition br_dCT CT a R M W0 CL CD (ms : list T) : T :=
    (W0 +! lsum ms (fun m => m)) *! oexp (br_arg CT a R M CL CD) *! R /! a /! M /! CL *! CD.
  Definition br_dR CT a R M W0 CL CD (ms : list T) : T :=
    (W0 +! lsum ms (fun m => m)) *! oexp (br_arg CT a R M CL CD) /! a /! M /! CL *! CD *! CT.
  Definition br_da CT a R M W0 CL CD (ms : list T) : T :=
    oopp (W0 +! lsum ms (fun m => m)) *! oexp (br_arg CT a R M CL CD) *! R *! CT /! (a *! a) /! M *! CD /! CL.
  Definition br_dM CT a R M W0 CL CD (ms : list T) : T :=
    oopp (W0 +! lsum ms (fun m => m)) *! oexp (br_arg CT a R M CL CD) *! R *! CT /! a /! (M *! M) *! CD /! CL.
  Definition br_dW (CT a R M CL CD : T) : T := oexp (br_arg CT a R M CL CD) -! o1.

  (* ---------- CenterOfGravity: per surface (structural_mass, cg_location) ---------- *)
  Definition cog (g0 lf W0 fuelburn total_weight : T) (empty_cg : nat -> T)
             (ss : list (T * (nat -> T))) (d : nat) : T :=
    (W0 *! empty_cg d +! lsum ss (fun s => snd s d *! fst s)) /! (total_weight /! (g0 *! lf) -! fuelburn).

  (* ---------- Reynolds, speed ---------- *)
  Definition reynolds (rho v mu : T) : T := rho *! v /! mu.
  Definition speed (a M : T) : T := a *! M.

  (* ---------- MomentCoefficient ---------- *)
  Record MSurf := mkMSurf {
    ms_npx : nat; ms_npy : nat; ms_sym : bool;
    ms_bpts : nat -> nat -> nat -> T;      (* [nx-1, ny, 3] *)
    ms_widths : nat -> T; ms_chords : nat -> T; ms_Sref : T;
    ms_F : nat -> nat -> nat -> T          (* [nx-1, ny-1, 3] *)
  }.
  Definition ms_MAC (s : MSurf) : T :=
    let m := o1 /! ms_Sref s *! sumn (ms_npy s) (fun j =>
               osq ((ms_chords s (S j) +! ms_chords s j) *! ohalf) *! ms_widths s j) in
    if ms_sym s then m *! o2 else m.
  Definition ms_pts (s : MSurf) (i j d : nat) : T := (ms_bpts s i (S j) d +! ms_bpts s i j d) *! ohalf.
  (* spanwise-summed moment of the surface about cg, before the symmetric fix-up *)
  Definition ms_moment_raw (s : MSurf) (cg : nat -> T) (d : nat) : T :=
    sumn (ms_npy s) (fun j => sumn (ms_npx s) (fun i =>
       cross (fun k => ms_pts s i j k -! cg k) (ms_F s i j) d)).
  Definition ms_moment (s : MSurf) (cg : nat -> T) (d : nat) : T :=
    if ms_sym s then (if (d =? 1)%nat then ms_moment_raw s cg d *! o2 else o0)
    else ms_moment_raw s cg d.
  Definition moment_M (ss : list MSurf) (cg : nat -> T) (d : nat) : T := lsum ss (fun s => ms_moment s cg d).
  Definition moment_CM (ss : list MSurf) (cg : nat -> T) (rho v S_tot : T) (d : nat) : T :=
    let mac := match ss with s :: _ => ms_MAC s | [] => o1 end in
    moment_M ss cg d /! (ohalf *! rho *! (v *! v) *! S_tot *! mac).
End Functionals.
