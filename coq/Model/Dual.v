(* Dual.v — forward-mode differentiation of every model function, obtained by instantiating the model at
   dual numbers (value, tangent) over any base instance of Ops.  Definitions only.
   Real/DualProofs.v proves, once and for all, that every operation of this instance computes the value
   and the derivative of the corresponding real operation; the per-component C01 theorems then follow by
   structural recursion over the model term.  Evaluated over the binary64 instance it gives the dense
   Jacobian of the model, which the correspondence streams compare with the Jacobian the code reports. *)
From Coq Require Import ZArith List Bool.
From OAS Require Import Scalar.

Section Dual.
  Context {T : Type} {K : Ops T}.
  Definition dual : Type := (T * T)%type.
  Definition dinj (a : T) : dual := (a, o0).                      (* a constant *)
  Definition dvar (a : T) : dual := (a, o1).                      (* the differentiation variable *)
  Definition dseed (b : bool) (a : T) : dual := (a, if b then o1 else o0).
  Definition d_add (a b : dual) : dual := (fst a +! fst b, snd a +! snd b).
  Definition d_sub (a b : dual) : dual := (fst a -! fst b, snd a -! snd b).
  Definition d_mul (a b : dual) : dual := (fst a *! fst b, snd a *! fst b +! fst a *! snd b).
  Definition d_div (a b : dual) : dual :=
    let q := fst a /! fst b in (q, (snd a -! q *! snd b) /! fst b).
  Definition d_opp (a : dual) : dual := (oopp (fst a), oopp (snd a)).
  Definition d_abs (a : dual) : dual := (oabs (fst a), if fst a <!? o0 then oopp (snd a) else snd a).
  Definition d_sqrt (a : dual) : dual := let s := osqrt (fst a) in (s, snd a /! (#2 *! s)).
  Definition d_exp (a : dual) : dual := let e := oexp (fst a) in (e, snd a *! e).
  Definition d_ln (a : dual) : dual := (oln (fst a), snd a /! fst a).
  Definition d_sin (a : dual) : dual := (osin (fst a), snd a *! ocos (fst a)).
  Definition d_cos (a : dual) : dual := (ocos (fst a), oopp (snd a *! osin (fst a))).
  Definition d_tan (a : dual) : dual := let u := otan (fst a) in (u, snd a *! (o1 +! u *! u)).
  Definition d_atan (a : dual) : dual := (oatan (fst a), snd a /! (o1 +! fst a *! fst a)).
  Definition d_acos (a : dual) : dual := (oacos (fst a), oopp (snd a /! osqrt (o1 -! fst a *! fst a))).
  Definition d_pow (a b : dual) : dual :=
    let p := opow (fst a) (fst b) in (p, p *! (snd b *! oln (fst a) +! fst b *! snd a /! fst a)).

  #[export] Instance Dops : Ops dual :=
    mkOps dual (dinj o0) (dinj o1) d_add d_sub d_mul d_div d_opp d_abs d_sqrt d_exp d_ln d_sin d_cos d_tan
          d_atan d_acos d_pow (fun z => dinj (oofZ z)) (dinj opi)
          (fun a b => fst a <!? fst b) (fun a b => fst a <=!? fst b) (fun a b => oeqb (fst a) (fst b)).
End Dual.
Arguments dual T : clear implicits.
