(* Transfer.v — models of openaerostruct/transfer/{load_transfer,displacement_transfer,
   compute_transformation_matrix}.py, aerodynamics/mesh_point_forces.py and
   structures/compute_nodes.py.
   Index conventions: mesh i j d with i < nx = S npx chordwise, j < ny = S npy spanwise, d < 3.
   Panel arrays F i j d with i < npx, j < npy. *)
From Coq Require Import ZArith List Arith.
From OAS Require Import Scalar.

Section Transfer.
  Context {T : Type} {K : Ops T}.

  (* wingbox spar location (setup of ComputeNodes / LoadTransfer) *)
  Definition wingbox_fem_origin (xu0 yu0 yl0 xuN yuN ylN : T) : T :=
    (xu0 *! (yu0 -! yl0) +! xuN *! (yuN -! ylN)) /! ((yu0 -! yl0) +! (yuN -! ylN)).

  (* ---------------- ComputeNodes ---------------- *)
  Definition nodes (npx : nat) (w : T) (mesh : nat -> nat -> nat -> T) (j d : nat) : T :=
    (o1 -! w) *! mesh 0 j d +! w *! mesh npx j d.
  (* dense Jacobian d nodes[j,d] / d mesh[i',j',d'] *)
  Definition nodes_J (npx : nat) (w : T) (j d i' j' d' : nat) : T :=
    iff0 ((j =? j') && (d =? d'))%bool
         (iff0 (i' =? 0) (o1 -! w) +! iff0 (i' =? npx) w).

  (* ---------------- LoadTransfer ---------------- *)
  Section LT.
    Variables (npx npy : nat) (w1 w2 : T).
    Variable mesh : nat -> nat -> nat -> T.
    Variable F : nat -> nat -> nat -> T.

    Definition lt_apts (i j d : nat) : T :=
      ohalf *! (o1 -! w1) *! mesh i j d +! ohalf *! w1 *! mesh (S i) j d
      +! ohalf *! (o1 -! w1) *! mesh i (S j) d +! ohalf *! w1 *! mesh (S i) (S j) d.
    Definition lt_spts (j d : nat) : T := (o1 -! w2) *! mesh 0 j d +! w2 *! mesh npx j d.
    Definition lt_hs (j d : nat) : T := ohalf *! sumn npx (fun i => F i j d).
    Definition lt_min (j d : nat) : T :=
      sumn npx (fun i => cross (vsub (lt_apts i j) (lt_spts j)) (vscal ohalf (F i j)) d).
    Definition lt_mout (j d : nat) : T :=
      sumn npx (fun i => cross (vsub (lt_apts i j) (lt_spts (S j))) (vscal ohalf (F i j)) d).
    Definition lt_force (j d : nat) : T :=
      iff0 (j <? npy) (lt_hs j d) +! iff0 (0 <? j) (lt_hs (j - 1) d).
    Definition lt_moment (j d : nat) : T :=
      iff0 (j <? npy) (lt_min j d) +! iff0 (0 <? j) (lt_mout (j - 1) d).
    (* loads[j, c], c < 6 *)
    Definition lt_loads (j c : nat) : T :=
      if c <? 3 then lt_force j c else lt_moment j (c - 3).
  End LT.

  (* ---------------- ComputeTransformationMatrix ---------------- *)
  Definition transf (rx ry rz : T) (a b : nat) : T :=
    match a, b with
    | 0, 0 => oopp o2 +! ocos ry +! ocos rz
    | 0, 1 => oopp (osin rz)
    | 0, 2 => osin ry
    | 1, 0 => osin rz
    | 1, 1 => oopp o2 +! ocos rx +! ocos rz
    | 1, 2 => oopp (osin rx)
    | 2, 0 => oopp (osin ry)
    | 2, 1 => osin rx
    | 2, 2 => oopp o2 +! ocos rx +! ocos ry
    | _, _ => o0
    end.
  Definition transf_mtx (disp : nat -> nat -> T) (j a b : nat) : T :=
    transf (disp j 3) (disp j 4) (disp j 5) a b.
  (* d T[a,b] / d r_k  (k = 0,1,2 for rx,ry,rz) *)
  Definition transf_d (rx ry rz : T) (a b k : nat) : T :=
    match k, a, b with
    | 0, 1, 1 => oopp (osin rx) | 0, 1, 2 => oopp (ocos rx)
    | 0, 2, 1 => ocos rx        | 0, 2, 2 => oopp (osin rx)
    | 1, 0, 0 => oopp (osin ry) | 1, 0, 2 => ocos ry
    | 1, 2, 0 => oopp (ocos ry) | 1, 2, 2 => oopp (osin ry)
    | 2, 0, 0 => oopp (osin rz) | 2, 0, 1 => oopp (ocos rz)
    | 2, 1, 0 => ocos rz        | 2, 1, 1 => oopp (osin rz)
    | _, _, _ => o0
    end.

  (* ---------------- DisplacementTransfer ---------------- *)
  Definition def_mesh_rot (mesh : nat -> nat -> nat -> T)
             (Tm : nat -> nat -> nat -> T) (nds : nat -> nat -> T) (i j d : nat) : T :=
    sumn 3 (fun k => Tm j d k *! (mesh i j k -! nds j k)).
  Definition def_mesh (mesh : nat -> nat -> nat -> T) (disp : nat -> nat -> T)
             (Tm : nat -> nat -> nat -> T) (nds : nat -> nat -> T) (i j d : nat) : T :=
    mesh i j d +! disp j d +! def_mesh_rot mesh Tm nds i j d.

  (* the two chained, as wired by DisplacementTransferGroup *)
  Definition def_mesh_group (npx : nat) (w : T) (mesh : nat -> nat -> nat -> T)
             (disp : nat -> nat -> T) (i j d : nat) : T :=
    def_mesh mesh disp (transf_mtx disp) (nodes npx w mesh) i j d.

  (* ---------------- MeshPointForces ---------------- *)
  Definition mesh_point_forces (npx npy : nat) (le te : T) (F : nat -> nat -> nat -> T)
             (i j d : nat) : T :=
    iff0 ((i <? npx) && (j <? npy))%bool (F i j d *! le)
    +! iff0 ((0 <? i) && (j <? npy))%bool (F (i - 1) j d *! te)
    +! iff0 ((0 <? i) && (0 <? j))%bool (F (i - 1) (j - 1) d *! te)
    +! iff0 ((i <? npx) && (0 <? j))%bool (F i (j - 1) d *! le).

  (* force points (panel quarter-chord mid points), as CollocationPoints computes them *)
  Definition force_pts (mesh : nat -> nat -> nat -> T) (i j d : nat) : T :=
    ofrac 375 1000 *! (mesh i j d +! mesh i (S j) d) +! ofrac 125 1000 *! (mesh (S i) j d +! mesh (S i) (S j) d).
End Transfer.
