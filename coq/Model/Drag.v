(* Drag.v — models of aerodynamics/{viscous_drag,wave_drag,total_drag}.py.
   np = ny - 1 panels; lengths / chords have np + 1 entries. *)
From Coq Require Import ZArith List Arith.
From OAS Require Import Scalar.

Section Drag.
  Context {T : Type} {K : Ops T}.

  Definition olog10 (x : T) : T := oln x /! oln #10.

  (* ---------------- ViscousDrag ---------------- *)
  Definition c455 : T := ofrac 455 1000.
  Definition c1328 : T := ofrac 1328 1000.
  Definition c258 : T := ofrac 258 100.
  Definition c358 : T := ofrac 358 100.
  Definition vd_B (M : T) : T := opow (o1 +! ofrac 144 1000 *! (M *! M)) (ofrac 65 100).
  Definition cd_turb (M x : T) : T := c455 /! opow (olog10 x) c258 /! vd_B M.
  Definition cd_lam (x : T) : T := c1328 /! osqrt x.
  (* section drag coefficient for chord Reynolds number Rec and laminar fraction k *)
  Definition vd_cd (k M Rec : T) : T :=
    if oeqb k o0 then (o0 -! o0) *! k +! cd_turb M Rec
    else if k <!? o1 then (cd_lam (Rec *! k) -! cd_turb M (Rec *! k)) *! k +! cd_turb M Rec
    else (cd_lam (Rec *! k) -! o0) *! k +! o0.
  Definition vd_kFF (cmax M toc : T) : T :=
    ofrac 134 100 *! opow M (ofrac 18 100)
    *! (o1 +! ofrac 6 10 *! toc /! cmax +! #100 *! (osq (osq toc))).
  Definition vd_FF (cmax M toc cosw : T) : T := vd_kFF cmax M toc *! opow cosw (ofrac 28 100).

  Section VD.
    Variables (np : nat) (sym : bool) (k cmax : T).
    Variables (re M S_ref : T) (widths lsp lengths toc : nat -> T).
    Definition vd_chord (j : nat) : T := (lengths (S j) +! lengths j) /! o2.
    Definition vd_cos (j : nat) : T := widths j /! lsp j.
    Definition vd_doq (j : nat) : T := o2 *! vd_cd k M (re *! vd_chord j) *! vd_chord j.
    Definition vd_Doq : T := sumn np (fun j => vd_doq j *! widths j *! vd_FF cmax M (toc j) (vd_cos j)).
    Definition viscous_CDv (with_viscous : bool) : T :=
      if with_viscous then (let c := vd_Doq /! S_ref in if sym then c *! o2 else c) else o0.

    (* the reported derivative dCDv/dre.  [laminar_zero] = the member that returns 0 for k >= 1 *)
    Definition vd_dturb_dRe (x : T) : T :=      (* d cd_turb(x) / dx *)
      c455 /! vd_B M *! oopp c258 /! opow (olog10 x) c358 /! (x *! oln #10).
    Definition vd_dlam_dRe (x : T) : T := oopp c1328 /! o2 /! opow x (ofrac 15 10).
    Definition vd_dcd_dRec (laminar_zero : bool) (Rec : T) : T :=
      if oeqb k o0 then vd_dturb_dRe Rec
      else if k <!? o1 then k *! (vd_dlam_dRe (Rec *! k) *! k -! vd_dturb_dRe (Rec *! k) *! k) +! vd_dturb_dRe Rec
      else if laminar_zero then o0 else k *! (vd_dlam_dRe (Rec *! k) *! k).
    Definition viscous_dCDv_dre (laminar_zero : bool) : T :=
      let d := sumn np (fun j => widths j *! (o2 *! vd_chord j *! (vd_dcd_dRec laminar_zero (re *! vd_chord j) *! vd_chord j))
                                 *! vd_FF cmax M (toc j) (vd_cos j)) /! S_ref in
      if sym then d *! o2 else d.
  End VD.

  (* ---------------- WaveDrag ---------------- *)
  Definition wd_ka : T := ofrac 95 100.
  Section WD.
    Variables (np : nat) (sym : bool).
    Variables (M CL : T) (widths lsp chords toc : nat -> T).
    Definition wd_area (j : nat) : T := (chords j +! chords (S j)) /! o2 *! widths j.
    Definition wd_sumA : T := sumn np wd_area.
    Definition wd_cos (j : nat) : T := widths j /! lsp j.
    Definition wd_avg_cos : T := sumn np (fun j => wd_cos j *! wd_area j) /! wd_sumA.
    Definition wd_avg_toc : T := sumn np (fun j => toc j *! wd_area j) /! wd_sumA.
    Definition wd_MDD_of (ac at_ : T) : T :=
      wd_ka /! ac -! at_ /! (ac *! ac) -! CL /! (#10 *! (ac *! ac *! ac)).
    Definition wd_crest : T := opow (ofrac 1 10 /! #80) (o1 /! #3).
    Definition wd_Mcrit : T := wd_MDD_of wd_avg_cos wd_avg_toc -! wd_crest.
    Definition wd_core : T :=
      if wd_Mcrit <!? M then #20 *! osq (osq (M -! wd_Mcrit)) else o0.
    (* [sym_double] = the member that doubles the coefficient of a symmetric surface *)
    Definition wave_CDw (sym_double with_wave : bool) : T :=
      if with_wave then (if (sym && sym_double)%bool then wd_core *! o2 else wd_core) else o0.
  End WD.

  (* ---------------- TotalDrag ---------------- *)
  Definition total_drag (CDi CDv CDw CD0 : T) : T := CDi +! CDv +! CDw +! CD0.
End Drag.
