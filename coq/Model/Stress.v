(* Stress.v — models of structures/{vonmises_tube,vonmises_wingbox,failure_ks,failure_exact,
   non_intersecting_thickness,section_properties_tube}.py *)
From Coq Require Import ZArith List Arith.
From OAS Require Import Scalar.

Section Stress.
  Context {T : Type} {K : Ops T}.

  Definition vunit (v : nat -> T) : nat -> T := fun d => v d /! nrm v.
  Definition e_x : nat -> T := mk3 o1 o0 o0.

  (* the local element frame of vonmises_* and (up to the reference vector) Transform *)
  Definition loc_x (P0 P1 : nat -> T) : nat -> T := vunit (vsub P1 P0).
  Definition loc_y (P0 P1 : nat -> T) : nat -> T := vunit (cross (loc_x P0 P1) e_x).
  Definition loc_z (P0 P1 : nat -> T) : nat -> T := vunit (cross (loc_x P0 P1) (loc_y P0 P1)).

  Definition o3 : T := #3.

  (* ---------- tube ---------- *)
  (* stresses from local quantities: du = u1x-u0x, dr* = r1*-r0* *)
  Definition tube_vm_local (E G r L du drx dry drz : T) (s : nat) : T :=
    let tmp := osqrt (osq dry +! osq drz) in
    let sxx0 := E *! du /! L +! E *! r /! L *! tmp in
    let sxx1 := E *! (oopp du) /! L +! E *! r /! L *! tmp in
    let sxt := G *! r *! drx /! L in
    match s with
    | O => osqrt (osq sxx0 +! o3 *! osq sxt)
    | _ => osqrt (osq sxx1 +! o3 *! osq sxt)
    end.

  Section Elem.
    Variable nodes : nat -> nat -> T.       (* [ny,3] *)
    Variable disp : nat -> nat -> T.        (* [ny,6] *)
    Variable e : nat.
    Definition P0 : nat -> T := nodes e.
    Definition P1 : nat -> T := nodes (S e).
    Definition eL : T := nrm (vsub P1 P0).
    Definition xl := loc_x P0 P1. Definition yl := loc_y P0 P1. Definition zl := loc_z P0 P1.
    Definition utr (n : nat) : nat -> T := fun d => disp n d.          (* translations of node n *)
    Definition rot (n : nat) : nat -> T := fun d => disp n (3 + d).    (* rotations of node n *)
    (* local components *)
    Definition u0 (ax : nat -> T) := dot ax (utr e).
    Definition u1 (ax : nat -> T) := dot ax (utr (S e)).
    Definition r0 (ax : nat -> T) := dot ax (rot e).
    Definition r1 (ax : nat -> T) := dot ax (rot (S e)).

    Definition vm_tube (E G : T) (radius : nat -> T) (s : nat) : T :=
      tube_vm_local E G (radius e) eL (u1 xl -! u0 xl) (r1 xl -! r0 xl) (r1 yl -! r0 yl) (r1 zl -! r0 zl) s.

    (* ---------- wingbox ---------- *)
    Definition o6 : T := #6. Definition o4 : T := #4. Definition o12 : T := #12.

    Definition wb_axial (E : T) : T := E *! (u1 xl -! u0 xl) /! eL.
    Definition wb_torsion (G : T) (J A_enc tsp : nat -> T) : T :=
      G *! J e /! eL *! (r1 xl -! r0 xl) /! o2 /! tsp e /! A_enc e.
    (* the code recovers the moment at one fixed end of the element *)
    Definition wb_mz : T := o6 *! u0 yl +! o2 *! r0 zl *! eL -! o6 *! u1 yl +! o4 *! r1 zl *! eL.
    Definition wb_my : T := oopp o6 *! u0 zl +! o2 *! r0 yl *! eL +! o6 *! u1 zl +! o4 *! r1 yl *! eL.
    Definition wb_top (E : T) (htop : nat -> T) : T := E /! (osq eL) *! wb_mz *! htop e.
    Definition wb_bottom (E : T) (hbot : nat -> T) : T := oopp E /! (osq eL) *! wb_mz *! hbot e.
    Definition wb_front (E : T) (hfront : nat -> T) : T := oopp E /! (osq eL) *! wb_my *! hfront e.
    Definition wb_rear (E : T) (hrear : nat -> T) : T := E /! (osq eL) *! wb_my *! hrear e.
    Definition wb_vnum : T :=
      oopp o12 *! u0 yl -! o6 *! r0 zl *! eL +! o12 *! u1 yl -! o6 *! r1 zl *! eL.
    Definition wb_vshear (E : T) (Qz tsp : nat -> T) : T :=
      E /! (eL *! eL *! eL) *! wb_vnum *! Qz e /! (o2 *! tsp e).

    Definition vm_wingbox (E G tssf : T) (Qz J A_enc tsp htop hbot hfront hrear : nat -> T) (s : nat) : T :=
      let ax := wb_axial E in let tor := wb_torsion G J A_enc tsp in
      let top := wb_top E htop in let bot := wb_bottom E hbot in
      let fr := wb_front E hfront in let re := wb_rear E hrear in
      let vs := wb_vshear E Qz tsp in
      match s with
      | 0 => osqrt (osq (top +! re +! ax) +! o3 *! osq tor) /! tssf
      | 1 => osqrt (osq (bot +! fr +! ax) +! o3 *! osq tor)
      | 2 => osqrt (osq (fr +! ax) +! o3 *! osq (tor -! vs))
      | _ => osqrt (osq (re +! ax) +! o3 *! osq (tor +! vs)) /! tssf
      end.
  End Elem.

  (* ---------- failure ---------- *)
  Definition failure_exact (sigma : T) (vm : nat -> T) (i : nat) : T := vm i /! sigma -! o1.

  (* n = number of stress entries - 1 (so the list is non-empty) *)
  Definition ks_f (sigma : T) (vm : nat -> T) (i : nat) : T := vm i /! sigma -! o1.
  Definition ks_fmax (n : nat) (sigma : T) (vm : nat -> T) : T := maxn n (ks_f sigma vm).
  Definition ks_expo (n : nat) (rho sigma : T) (vm : nat -> T) (i : nat) : T :=
    rho *! (vm i /! sigma -! o1 -! ks_fmax n sigma vm).
  Definition failure_ks (n : nat) (rho sigma : T) (vm : nat -> T) : T :=
    ks_fmax n sigma vm
    +! o1 /! rho *! oln (sumn (S n) (fun i => oexp (ks_expo n rho sigma vm i))).
  (* reported derivative: softmax / sigma, plus (1 - sum softmax)/sigma at the first argmax *)
  Definition ks_soft (n : nat) (rho sigma : T) (vm : nat -> T) (i : nat) : T :=
    oexp (ks_expo n rho sigma vm i) /! sumn (S n) (fun k => oexp (ks_expo n rho sigma vm k)).
  Fixpoint first_argmax_from (fuel k : nat) (f : nat -> T) (m : T) : nat :=
    match fuel with
    | O => k
    | S fu => if oeqb (f k) m then k else first_argmax_from fu (S k) f m
    end.
  Definition ks_J (n : nat) (rho sigma : T) (vm : nat -> T) (i : nat) : T :=
    let am := first_argmax_from (S n) 0 (ks_f sigma vm) (ks_fmax n sigma vm) in
    ks_soft n rho sigma vm i /! sigma
    +! (if (i =? am)%nat then (o1 -! sumn (S n) (ks_soft n rho sigma vm)) /! sigma else o0).

  Definition thickness_intersects (thickness radius : nat -> T) (i : nat) : T := thickness i -! radius i.

  (* ---------- tube section properties ---------- *)
  Definition p4 (x : T) : T := osq (osq x).
  Definition tube_A (r t : T) : T := opi *! (osq r -! osq (r -! t)).
  Definition tube_Iy (r t : T) : T := opi *! (p4 r -! p4 (r -! t)) /! #4.
  Definition tube_J (r t : T) : T := opi *! (p4 r -! p4 (r -! t)) /! o2.
  Definition p3 (x : T) : T := x *! x *! x.
  Definition tube_dA_dr (r t : T) : T := o2 *! opi *! (r -! (r -! t)).
  Definition tube_dA_dt (r t : T) : T := o2 *! opi *! (r -! t).
  Definition tube_dIy_dr (r t : T) : T := opi *! (p3 r -! p3 (r -! t)).
  Definition tube_dIy_dt (r t : T) : T := opi *! p3 (r -! t).
  Definition tube_dJ_dr (r t : T) : T := o2 *! opi *! (p3 r -! p3 (r -! t)).
  Definition tube_dJ_dt (r t : T) : T := o2 *! opi *! p3 (r -! t).
End Stress.
