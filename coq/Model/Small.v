(* Small.v — the remaining small components: structures/spar_within_wing.py (SparWithinWing), aerodynamics/total_lift.py
   (TotalLift), integration/multipoint_comps.py (MultiCD), aerodynamics/panel_forces_surf.py (PanelForcesSurf).
   Definitions only. *)
From Coq Require Import ZArith List Arith.
From OAS Require Import Scalar Wingbox.

Section Small.
  Context {T : Type} {K : Ops T}.
  (* radius - t/c * mean chord / 2; the mean chord of an element is the average of the chords at its two nodes (wg_sw) *)
  Definition spar_within_wing (nx1 : nat) (mesh : nat -> nat -> nat -> T) (radius toc : nat -> T) (e : nat) : T :=
    radius e -! toc e *! wg_sw nx1 mesh e *! ohalf.
  (* CL = CL1 + CL0, CL0 an option of the surface *)
  Definition total_lift (CL0 CL1 : T) : T := CL1 +! CL0.
  (* sum of the drag coefficients of the flight points *)
  Definition multi_cd (n : nat) (cd : nat -> T) : T := sumn n cd.
  (* the block of the global panel-force array that belongs to one surface: offset = number of panels of the surfaces
     listed before it *)
  Definition panel_forces_surf (offset npy : nat) (pf : nat -> nat -> T) (i j d : nat) : T := pf (offset + i * npy + j)%nat d.
End Small.
