(* Aero.v — models of the vortex-lattice chain:
   collocation_points, vortex_mesh, get_vectors, eval_mtx, mtx_rhs, horseshoe_circulations,
   eval_velocities, panel_forces, convert_velocity, rotational_velocity, geometry (VLMGeometry),
   lift_drag, coeffs, total_lift.
   Conventions: mesh i j d, i < nx = S npx (chordwise), j < ny = S npy (spanwise), d < 3;
   panels (i, j) with i < npx, j < npy; flat panel index i * npy + j. *)
From Coq Require Import ZArith List Arith Bool.
From OAS Require Import Scalar.
Import ListNotations.

Section Aero.
  Context {T : Type} {K : Ops T}.

  Definition o4pi : T := #4 *! opi.

  (* ---------------- CollocationPoints (per surface) ---------------- *)
  Definition c025 : T := ofrac 25 100.
  Definition c075 : T := ofrac 75 100.
  Definition coll_pts (mesh : nat -> nat -> nat -> T) (i j d : nat) : T :=
    c025 *! ohalf *! mesh i j d +! c075 *! ohalf *! mesh (S i) j d
    +! c025 *! ohalf *! mesh i (S j) d +! c075 *! ohalf *! mesh (S i) (S j) d.
  Definition force_pts_c (mesh : nat -> nat -> nat -> T) (i j d : nat) : T :=
    c075 *! ohalf *! mesh i j d +! c025 *! ohalf *! mesh (S i) j d
    +! c075 *! ohalf *! mesh i (S j) d +! c025 *! ohalf *! mesh (S i) (S j) d.
  Definition bound_vecs (mesh : nat -> nat -> nat -> T) (i j d : nat) : T :=
    c075 *! mesh i j d +! c025 *! mesh (S i) j d
    +! oopp c075 *! mesh i (S j) d +! oopp c025 *! mesh (S i) (S j) d.

  (* ---------------- VortexMesh (per surface) ---------------- *)
  (* quarter-chord lattice of a mesh with nx = S npx rows: rows < npx are 0.75/0.25 blends,
     the last row is the trailing edge *)
  Definition qc_rows (npx : nat) (m : nat -> nat -> nat -> T) (i j d : nat) : T :=
    if (i <? npx)%nat then c075 *! m i j d +! c025 *! m (S i) j d else m npx j d.
  (* symmetric ghost mesh, width 2 ny - 1 = 2 npy + 1 *)
  Definition flipy (d : nat) (x : T) : T := if (d =? 1)%nat then x *! oopp o1 else x.
  Definition ghost_mesh (npy : nat) (left : bool) (m : nat -> nat -> nat -> T) (i j d : nat) : T :=
    if left then
      (if (j <=? npy)%nat then m i j d else flipy d (m i (2 * npy - j) d))
    else
      (if (npy <=? j)%nat then m i (j - npy) d else flipy d (m i (npy - j) d)).
  (* reflection about the plane through h*n with normal n = (sin a, 0, -cos a)  (a in rad) *)
  Definition plane_n (alpha : T) : nat -> T := mk3 (osin alpha) o0 (oopp (ocos alpha)).
  Definition reflect (alpha h : T) (p : nat -> T) (d : nat) : T :=
    let n := plane_n alpha in
    let v := fun k => p k -! (o0 +! n k *! h) in
    let t := dot v n in
    p d -! o2 *! (t *! n d).
  Definition vortex_mesh (npx npy : nat) (sym ground left : bool) (alpha h : T)
             (m : nat -> nat -> nat -> T) (i j d : nat) : T :=
    let base := if sym then ghost_mesh npy left m else m in
    if ground then
      (if (i <=? npx)%nat then qc_rows npx base i j d
       else qc_rows npx (fun i' j' => reflect alpha h (base i' j')) (i - S npx) j d)
    else qc_rows npx base i j d.

  (* ---------------- GetVectors ---------------- *)
  Definition get_vectors (pts : nat -> nat -> T) (vm : nat -> nat -> nat -> T) (e i j d : nat) : T :=
    pts e d -! vm i j d.

  (* ---------------- the vortex kernels (eval_mtx.py) ---------------- *)
  Definition vtol : T := ofrac 1 10000000000.
  Definition fv (r1 r2 : nat -> T) (d : nat) : T :=
    let n1 := nrm r1 in let n2 := nrm r2 in
    let num := (o1 /! n1 +! o1 /! n2) *! cross r1 r2 d in
    let den := n1 *! n2 +! dot r1 r2 in
    if vtol <!? oabs den then num /! (den *! #4 *! opi) else o0.
  Definition semi (u r : nat -> T) (d : nat) : T :=
    let n := nrm r in
    cross u r d /! (n *! (n -! dot u r)) /! #4 /! opi.

  (* ---------------- EvalVelMtx (per surface, per evaluation point e) ---------------- *)
  Section EVM.
    Variables (npx npy : nat) (sym ground right : bool) (alpha_deg : T).
    Variable vec : nat -> nat -> nat -> nat -> T.       (* e, i, j, d over the vortex mesh *)
    Definition wake_u : nat -> T :=
      let a := alpha_deg *! opi /! #180 in mk3 (ocos a) o0 (osin a).
    (* block b = 0: the surface, b = 1: its ground image (rows shifted by nx) *)
    Definition vtx (b e i j : nat) : nat -> T := fun d => vec e (i + b * S npx) j d.
    Definition ring_raw (b e i j d : nat) : T :=
      let A := vtx b e i (S j) in let B := vtx b e i j in
      let C := vtx b e (S i) j in let D := vtx b e (S i) (S j) in
      fv A B d +! fv B C d +! fv C D d +! fv D A d.
    Definition t1_raw (b e j d : nat) : T := fv (vtx b e npx (S j)) (vtx b e npx j) d.       (* D -> C *)
    Definition t2_raw (b e j d : nat) : T := semi wake_u (vtx b e npx (S j)) d.             (* from D *)
    Definition t3_raw (b e j d : nat) : T := semi wake_u (vtx b e npx j) d.                 (* from C *)
    Definition mirror_j (j : nat) : nat := 2 * npy - 1 - j.
    Definition block_contrib (acc : T) (b : nat) (mult : T) (e i j d : nat) : T :=
      if sym then
        let a1 := acc +! mult *! ring_raw b e i j d in
        let a2 := a1 +! mult *! ring_raw b e i (mirror_j j) d in
        if (S i =? npx)%nat then
          a2 +! mult *! ((t1_raw b e j d +! t1_raw b e (mirror_j j) d)
                         -! (t2_raw b e j d +! t2_raw b e (mirror_j j) d)
                         +! (t3_raw b e j d +! t3_raw b e (mirror_j j) d))
        else a2
      else
        let a1 := acc +! mult *! ring_raw b e i j d in
        if (S i =? npx)%nat then
          a1 +! mult *! t1_raw b e j d -! mult *! t2_raw b e j d +! mult *! t3_raw b e j d
        else a1.
    Definition vel_mtx_unflipped (e i j d : nat) : T :=
      let a := block_contrib o0 0 o1 e i j d in
      if ground then block_contrib a 1 (oopp o1) e i j d else a.
    Definition vel_mtx (e i j d : nat) : T :=
      if (sym && right)%bool then vel_mtx_unflipped e i (npy - 1 - j) d else vel_mtx_unflipped e i j d.
  End EVM.

  (* ---------------- VLMGeometry (per surface) ---------------- *)
  Section Geom.
    Variables (npx npy : nat) (sym projected : bool).
    Variable mesh : nat -> nat -> nat -> T.
    Definition g_bpts (i j d : nat) : T := mesh i j d *! c075 +! mesh (S i) j d *! c025.
    Definition g_qc (j d : nat) : T := c025 *! mesh npx j d +! c075 *! mesh 0 j d.
    Definition g_lengths_spanwise (j : nat) : T :=
      osqrt (osq (g_qc (S j) 0 -! g_qc j 0) +! osq (g_qc (S j) 1 -! g_qc j 1) +! osq (g_qc (S j) 2 -! g_qc j 2)).
    Definition g_widths (j : nat) : T :=
      osqrt (osq (g_qc (S j) 1 -! g_qc j 1) +! osq (g_qc (S j) 2 -! g_qc j 2)).
    Definition g_lengths (j : nat) : T :=
      sumn npx (fun i => osqrt (osq (mesh (S i) j 0 -! mesh i j 0) +! osq (mesh (S i) j 1 -! mesh i j 1)
                                +! osq (mesh (S i) j 2 -! mesh i j 2))).
    Definition g_chords (j : nat) : T :=
      osqrt (osq (mesh 0 j 0 -! mesh npx j 0) +! osq (mesh 0 j 1 -! mesh npx j 1) +! osq (mesh 0 j 2 -! mesh npx j 2)).
    (* un-normalised panel normal: cross of the two diagonals *)
    Definition g_ncross (m : nat -> nat -> nat -> T) (i j : nat) : nat -> T :=
      cross (fun d => m i (S j) d -! m (S i) j d) (fun d => m i j d -! m (S i) (S j) d).
    Definition g_nnorm (m : nat -> nat -> nat -> T) (i j : nat) : T :=
      let c := g_ncross m i j in osqrt (osq (c 0) +! osq (c 1) +! osq (c 2)).
    Definition g_normals (i j d : nat) : T := g_ncross mesh i j d /! g_nnorm mesh i j.
    Definition g_proj (i j d : nat) : T := if (d =? 2)%nat then o0 else mesh i j d.
    Definition g_Sref : T :=
      let m := if projected then g_proj else mesh in
      let s := ohalf *! sumn npx (fun i => sumn npy (fun j => g_nnorm m i j)) in
      if sym then s *! o2 else s.
  End Geom.

  (* ---------------- ConvertVelocity / RotationalVelocity ---------------- *)
  Definition freestream (alpha_deg beta_deg v : T) (d : nat) : T :=
    let a := alpha_deg *! opi /! #180 in let b := beta_deg *! opi /! #180 in
    v *! mk3 (ocos a *! ocos b) (oopp (osin b)) (osin a *! ocos b) d.
  Definition rot_vel (omega cg : nat -> T) (pt : nat -> T) (d : nat) : T :=
    cross omega (fun k => pt k -! cg k) d.
  Definition onset_velocity (rotational : bool) (alpha_deg beta_deg v : T) (omega cg pt : nat -> T) (d : nat) : T :=
    if rotational then freestream alpha_deg beta_deg v d +! rot_vel omega cg pt d
    else freestream alpha_deg beta_deg v d.

  (* ---------------- the global system over a flat panel index ---------------- *)
  (* mtx[p, q] = vel_mtx[p, q, :] . normals[p, :] ;  rhs[p] = - freestream[p] . normals[p] *)
  Definition aic_mtx (velm : nat -> nat -> nat -> T) (normals : nat -> nat -> T) (p q : nat) : T :=
    sumn 3 (fun d => velm p q d *! normals p d).
  Definition aic_rhs (fs : nat -> nat -> T) (normals : nat -> nat -> T) (p : nat) : T :=
    oopp (sumn 3 (fun d => fs p d *! normals p d)).
  (* residual of SolveMatrix *)
  Definition solve_residual (n : nat) (mtx : nat -> nat -> T) (rhs circ : nat -> T) (p : nat) : T :=
    sumn n (fun q => mtx p q *! circ q) -! rhs p.

  (* horseshoe strengths: ring strength minus the ring ahead of it (same surface) *)
  Definition horseshoe (npy : nat) (circ : nat -> nat -> T) (i j : nat) : T :=
    match i with O => circ 0 j | S i' => circ i j -! circ i' j end.
  (* velocities at evaluation points: onset + sum over all panels of influence * circulation *)
  Definition eval_velocity (n : nat) (fs : nat -> nat -> T) (velm : nat -> nat -> nat -> T)
             (circ : nat -> T) (p d : nat) : T :=
    fs p d +! sumn n (fun q => velm p q d *! circ q).
  (* Kutta-Joukowski *)
  Definition panel_force (rho : T) (hs : nat -> T) (vel bv : nat -> nat -> T) (p d : nat) : T :=
    rho *! hs p *! cross (vel p) (bv p) d.

  (* ---------------- LiftDrag / Coeffs / TotalLift ---------------- *)
  Definition lift (np : nat) (sym : bool) (alpha_deg : T) (F : nat -> nat -> T) : T :=
    let a := alpha_deg *! opi /! #180 in
    let s := sumn np (fun p => oopp (F p 0) *! osin a +! F p 2 *! ocos a) in
    if sym then s *! o2 else s.
  Definition drag (np : nat) (sym : bool) (alpha_deg beta_deg : T) (F : nat -> nat -> T) : T :=
    let a := alpha_deg *! opi /! #180 in let b := beta_deg *! opi /! #180 in
    let s := sumn np (fun p => F p 0 *! ocos a *! ocos b -! F p 1 *! osin b +! F p 2 *! osin a *! ocos b) in
    if sym then s *! o2 else s.
  Definition coeff (X rho v S_ref : T) : T := X /! (ohalf *! rho *! (v *! v) *! S_ref).
  Definition total_lift_coeff (CL1 CL0 : T) : T := CL1 +! CL0.
End Aero.

(* ---------------- the chain of VLMStates up to the linear system, one surface ----------------
   def_mesh, alpha, beta, v  |->  AIC matrix and right-hand side, through CollocationPoints, VortexMesh, GetVectors,
   EvalVelMtx, VLMGeometry (normals), ConvertVelocity, VLMMtxRHSComp, wired as aerodynamics/states.py wires them
   (flat panel index p = i * npy + j) *)
Section Chain.
  Context {T : Type} {K : Ops T}.
  Variables (npx npy : nat) (sym left : bool).
  Definition chain_vectors (mesh : nat -> nat -> nat -> T) (e i j d : nat) : T :=
    get_vectors (fun e d => coll_pts mesh (e / npy)%nat (e mod npy)%nat d)
                (vortex_mesh npx npy sym false left o0 o0 mesh) e i j d.
  Definition chain_velm (alpha_deg : T) (mesh : nat -> nat -> nat -> T) (p q d : nat) : T :=
    vel_mtx npx npy sym false (negb left) alpha_deg (chain_vectors mesh) p (q / npy)%nat (q mod npy)%nat d.
  Definition chain_normals (mesh : nat -> nat -> nat -> T) (p d : nat) : T := g_normals mesh (p / npy)%nat (p mod npy)%nat d.
  Definition chain_aic (alpha_deg : T) (mesh : nat -> nat -> nat -> T) (p q : nat) : T :=
    aic_mtx (chain_velm alpha_deg mesh) (chain_normals mesh) p q.
  Definition chain_rhs (alpha_deg beta_deg v : T) (mesh : nat -> nat -> nat -> T) (p : nat) : T :=
    aic_rhs (fun p d => freestream alpha_deg beta_deg v d) (chain_normals mesh) p.
  Definition chain_residual (alpha_deg beta_deg v : T) (mesh : nat -> nat -> nat -> T) (circ : nat -> T) (p : nat) : T :=
    solve_residual (npx * npy) (chain_aic alpha_deg mesh) (chain_rhs alpha_deg beta_deg v mesh) circ p.
End Chain.

Section Flat.
  Context {T : Type} {K : Ops T}.
  (* concatenation of per-surface panel arrays into the global flat panel index (ind_1 / ind_2 offsets):
     blocks = [(number of panels, local array)] in surface order *)
  Fixpoint flat_lookup {A : Type} (default : A) (blocks : list (nat * (nat -> A))) (p : nat) : A :=
    match blocks with
    | [] => default
    | (n, f) :: r => if (p <? n)%nat then f p else flat_lookup default r (p - n)
    end.
  (* a [npx, npy] panel array read through the flat local index q = i * npy + j *)
  Definition by_panel {A : Type} (npy : nat) (f : nat -> nat -> A) (q : nat) : A := f (q / npy)%nat (q mod npy)%nat.
End Flat.
