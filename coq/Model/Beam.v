(* Beam.v — models of structures/{length,local_stiff,local_stiff_permuted,transform,
   local_stiff_transformed,fem,create_rhs,disp}.py over the generated coefficient tables. *)
From Coq Require Import ZArith List Arith Bool.
From OAS Require Import Scalar Stress BeamTables.
Import ListNotations.

Section Beam.
  Context {T : Type} {K : Ops T}.

  Definition tbl (t : list (list Z)) (i j : nat) : T := oofZ (nth j (nth i t []) 0%Z).

  (* ---------------- Length ---------------- *)
  Definition elem_length (nodes : nat -> nat -> T) (e : nat) : T :=
    osqrt (osq (nodes (S e) 0 -! nodes e 0) +! osq (nodes (S e) 1 -! nodes e 1) +! osq (nodes (S e) 2 -! nodes e 2)).

  (* ---------------- LocalStiff: 12x12 in block order axial(2) torsion(2) bending-y(4) bending-z(4) ------- *)
  Definition oddb (i : nat) : bool := Nat.odd i.
  Definition lscale (L : T) (i j : nat) (x : T) : T :=
    let x1 := if oddb i then x *! L else x in if oddb j then x1 *! L else x1.
  Definition local_stiff (E G A J Iy Iz L : T) (i j : nat) : T :=
    if ((i <? 2) && (j <? 2))%bool then E *! A /! L *! tbl gen_coeffs_2 i j
    else if ((2 <=? i) && (i <? 4) && (2 <=? j) && (j <? 4))%bool then G *! J /! L *! tbl gen_coeffs_2 (i - 2) (j - 2)
    else if ((4 <=? i) && (i <? 8) && (4 <=? j) && (j <? 8))%bool then
      lscale L (i - 4) (j - 4) (E *! Iy /! (L *! L *! L) *! tbl gen_coeffs_y (i - 4) (j - 4))
    else if ((8 <=? i) && (i <? 12) && (8 <=? j) && (j <? 12))%bool then
      lscale L (i - 8) (j - 8) (E *! Iz /! (L *! L *! L) *! tbl gen_coeffs_z (i - 8) (j - 8))
    else o0.

  (* ---------------- LocalStiffPermuted: Kp[col l][col m] = K[l][m] ---------------- *)
  Definition col_of (l : nat) : nat := nth l gen_col_indices 0.
  (* inverse permutation: the block index that is mapped to DOF j *)
  Fixpoint find_col (fuel l j : nat) : nat :=
    match fuel with O => l | S f => if (col_of l =? j)%nat then l else find_col f (S l) j end.
  Definition inv_col (j : nat) : nat := find_col 12 0 j.
  Definition permuted (Kl : nat -> nat -> T) (j k : nat) : T := Kl (inv_col j) (inv_col k).

  (* ---------------- Transform: block-diagonal direction-cosine matrix ---------------- *)
  Definition tr_row (P0 P1 : nat -> T) (r : nat) : nat -> T :=
    let x := loc_x P0 P1 in let y := loc_y P0 P1 in
    match r with 0 => x | 1 => y | _ => cross x y end.
  Definition transform (nodes : nat -> nat -> T) (e i j : nat) : T :=
    if (i / 3 =? j / 3)%nat then tr_row (nodes e) (nodes (S e)) (i mod 3) (j mod 3) else o0.

  (* ---------------- LocalStiffTransformed: T^T Kp T ---------------- *)
  Definition transformed (Tm Kp : nat -> nat -> T) (j k : nat) : T :=
    sumn 12 (fun l => sumn 12 (fun m => Tm l j *! Kp l m *! Tm m k)).

  (* ---------------- FEM: assembly of the augmented stiffness matrix, size 6 ny + 6 ---------------- *)
  (* kloc e : 12x12 transformed element matrix; ne = ny - 1 elements; root = clamped node *)
  Definition in_elem (e a : nat) : bool := ((e =? a) || (S e =? a))%nat%bool.
  Definition assembled (ne : nat) (kloc : nat -> nat -> nat -> T) (a r b c : nat) : T :=
    (* entry (6a + r, 6b + c), a, b < ny *)
    sumn ne (fun e => if (in_elem e a && in_elem e b)%bool
                      then kloc e (6 * (a - e) + r) (6 * (b - e) + c) else o0).
  Definition K_aug (ne root : nat) (kloc : nat -> nat -> nat -> T) (p q : nat) : T :=
    let ny := S ne in let nd := 6 * ny in
    if ((p <? nd) && (q <? nd))%nat%bool then assembled ne kloc (p / 6) (p mod 6) (q / 6) (q mod 6)
    else if ((p <? nd) && (nd <=? q))%nat%bool then (if (p =? 6 * root + (q - nd))%nat then gen_clamp_weight else o0)
    else if ((nd <=? p) && (q <? nd))%nat%bool then (if (q =? 6 * root + (p - nd))%nat then gen_clamp_weight else o0)
    else o0.
  Definition root_index (sym : bool) (ne : nat) : nat := if sym then ne else ne / 2.
  Definition fem_residual (ne root : nat) (kloc : nat -> nat -> nat -> T) (forces u : nat -> T) (p : nat) : T :=
    sumn (6 * S ne + 6) (fun q => K_aug ne root kloc p q *! u q) -! forces p.

  (* ---------------- CreateRHS / Disp ---------------- *)
  Definition create_rhs (ny : nat) (loads : nat -> nat -> T) (p : nat) : T :=
    if (p <? 6 * ny)%nat then
      (let x := o0 +! loads (p / 6) (p mod 6) in if oabs x <!? gen_rhs_threshold then o0 else x)
    else o0.
  Definition disp_of (u : nat -> T) (n c : nat) : T := u (6 * n + c).
End Beam.
