(* MultiSec.v — models of geometry/geometry_unification.py (GeomMultiUnification) and
   geometry/geometry_multi_join.py (GeomMultiJoin).  A section is (ny, mesh) with mesh i j d, i < nx, j < ny. *)
From Coq Require Import ZArith List Arith Bool.
From OAS Require Import Scalar.
Import ListNotations.

Section MultiSec.
  Context {T : Type} {K : Ops T}.
  Definition mesh := nat -> nat -> nat -> T.

  (* GeomMultiUnification.compute: sections are appended left to right; all but the last lose their last column;
     with shift_uni_mesh everything accumulated so far is translated so that the leading-edge end point of the
     previous section meets the leading-edge start point of the section being appended *)
  Fixpoint unify_go (shift : bool) (acc : mesh) (w : nat) (last : mesh) (nylast : nat) (secs : list (nat * mesh)) : mesh * nat :=
    match secs with
    | [] => (acc, w)
    | (ny, m) :: r =>
        let acc' := fun i j d =>
          if (j <? w)%nat then (if shift then (acc i j d -! last 0 (nylast - 1) d) +! m 0 0 d else acc i j d)
          else m i (j - w) d in
        unify_go shift acc' (w + match r with [] => ny | _ => ny - 1 end) m ny r
    end.
  Definition unify (shift : bool) (secs : list (nat * mesh)) : mesh * nat :=
    match secs with
    | [] => (fun _ _ _ => o0, 0)
    | (ny, m) :: r => unify_go shift m (ny - 1) m ny r
    end.
  (* the unified thickness-to-chord distribution: plain concatenation *)
  Fixpoint concat_tc (secs : list (nat * (nat -> T))) (j : nat) : T :=
    match secs with
    | [] => o0
    | (n, f) :: r => if (j <? n)%nat then f j else concat_tc r (j - n)
    end.

  (* GeomMultiJoin.compute: for the edge between sections e and e+1, leading (r = 0) and trailing (r = 1) edge point
     of the next section's first column minus this section's last column *)
  Definition join_sep (npx : nat) (ny_e : nat) (m_e m_next : mesh) (r d : nat) : T :=
    m_next (r * npx) 0 d -! m_e (r * npx) (ny_e - 1) d.
End MultiSec.
