(* MeshGen.v — models of geometry/utils.py (gen_rect_mesh, add_chordwise_panels, generate_mesh's
   half selection, getFullMesh) and of the multi-section generator geometry/geometry_mesh_gen.py. *)
From Coq Require Import ZArith List Arith Bool.
From OAS Require Import Scalar.
Import ListNotations.

Section MeshGen.
  Context {T : Type} {K : Ops T}.

  (* np.linspace(a, b, n)[k] for n >= 2 *)
  Definition linspace (a b : T) (n k : nat) : T :=
    if (S k =? n)%nat then b else a +! onat k *! ((b -! a) /! onat (n - 1)).

  (* ---------------- gen_rect_mesh ---------------- *)
  (* ny2 = (num_y + 1) / 2 stations per half, h = ny2 - 1 >= 1 *)
  Section Rect.
    Variables (num_x h : nat) (span chord scs ccs : T).
    Definition ny2 := S h.
    Definition half_uniform (k : nat) : T := linspace o0 ohalf ny2 (h - k).
    Definition half_wing (k : nat) : T :=
      if oeqb scs o2 then
        (* the special branch span_cos_spacing == 2.0 *)
        ofrac 25 100 *! (o1 -! ocos (linspace o0 opi ny2 (h - k))) *! scs +! (o1 -! scs) *! half_uniform k
      else
        ohalf *! ocos (linspace o0 (opi /! o2) ny2 k) *! scs +! (o1 -! scs) *! half_uniform k.
    (* full_wing over num_y = 2 h + 1 stations *)
    Definition rect_y (j : nat) : T :=
      if (j <? h)%nat then oopp (half_wing j) *! span else half_wing (2 * h - j) *! span.
    Definition rect_x (i : nat) : T :=
      (ohalf *! (o1 -! ocos (linspace o0 opi num_x i)) *! ccs +! (o1 -! ccs) *! linspace o0 o1 num_x i) *! chord.
    Definition rect_mesh (i j d : nat) : T :=
      match d with 0 => rect_x i | 1 => rect_y j | _ => o0 end.
  End Rect.

  (* generate_mesh: symmetric -> first (num_y + 1) / 2 columns; then the offset *)
  Definition with_offset (off : nat -> T) (m : nat -> nat -> nat -> T) (i j d : nat) : T := m i j d +! off d.

  (* add_chordwise_panels *)
  Definition chord_frac (num_x : nat) (ccs : T) (i : nat) : T :=
    ohalf *! (o1 -! ocos (linspace o0 opi num_x i)) *! ccs +! (o1 -! ccs) *! linspace o0 o1 num_x i.
  Definition add_chordwise (num_x : nat) (ccs : T) (le te : nat -> nat -> T) (i j d : nat) : T :=
    if (i =? 0)%nat then le j d else if (S i =? num_x)%nat then te j d
    else (o1 -! chord_frac num_x ccs i) *! le j d +! chord_frac num_x ccs i *! te j d.

  (* getFullMesh: ny columns of the half -> 2 ny - 1 columns *)
  Definition flipy_g (d : nat) (x : T) : T := if (d =? 1)%nat then x *! oopp o1 else x.
  Definition full_from_left (npy : nat) (m : nat -> nat -> nat -> T) (i j d : nat) : T :=
    if (j <=? npy)%nat then m i j d else flipy_g d (m i (2 * npy - j) d).
  Definition full_from_right (npy : nat) (m : nat -> nat -> nat -> T) (i j d : nat) : T :=
    (* the shared root column is taken from the mirrored copy (y negated) *)
    if (npy <? j)%nat then m i (j - npy) d else flipy_g d (m i (npy - j) d).

  (* ---------------- multi-section generator, symmetric branch ---------------- *)
  (* a section is generated from the edge it shares with the inboard neighbour: (root_le, root_te, root_y) *)
  Record Edge := mkEdge { e_le : T; e_te : T; e_y : T }.
  Record Sec := mkSec { s_taper : T; s_span : T; s_sweep : T }.
  Definition sec_tip (nx : nat) (root : Edge) (s : Sec) : Edge :=
    let root_c := oabs (e_le root -! e_te root) in
    let tip_c := root_c *! s_taper s in
    let tip_le := e_le root -! s_span s *! otan (s_sweep s) in
    mkEdge tip_le (tip_le -! tip_c) (e_y root -! s_span s).
  (* x(i, y) of the section; i = 0 leading edge ... nx - 1 trailing edge (before output_oas_mesh's flip) *)
  Definition sec_x (nx : nat) (root : Edge) (s : Sec) (i : nat) (y : T) : T :=
    let tip := sec_tip nx root s in
    let rx := linspace (e_le root) (e_te root) nx i in
    let tx := if oeqb (e_le tip) (e_te tip) then e_le tip else linspace (e_le tip) (e_te tip) nx i in
    rx -! ((tx -! rx) /! s_span s) *! (y -! e_y root).
  Definition sec_y (root : Edge) (s : Sec) (ny j : nat) : T := linspace (e_y root -! s_span s) (e_y root) ny j.
  (* the edge handed to the next (outboard) section, as the code reads it back from the generated arrays:
     root_c = |x[0,0] - x[nx-1,0]|, root_te = x[nx-1,0], root_y = y[0];  root_le = root_c + root_te *)
  Definition next_edge (nx : nat) (root : Edge) (s : Sec) : Edge :=
    let y0 := e_y root -! s_span s in
    let xle := sec_x nx root s 0 y0 in let xte := sec_x nx root s (nx - 1) y0 in
    mkEdge (oabs (xle -! xte) +! xte) xte y0.
  Definition root_edge (root_chord : T) : Edge := mkEdge (root_chord +! o0) o0 o0.

  (* the asymmetric branch as written (sections right of the root): slope over b/2 *)
  Definition sec_x_right_as_written (nx : nat) (root : Edge) (s : Sec) (i : nat) (y : T) : T :=
    let root_c := oabs (e_le root -! e_te root) in
    let tip_le := e_le root +! s_span s *! otan (s_sweep s) in
    let tip_te := tip_le -! root_c *! s_taper s in
    let rx := linspace (e_le root) (e_te root) nx i in
    let tx := if oeqb tip_le tip_te then tip_le else linspace tip_le tip_te nx i in
    rx +! ((tx -! rx) /! (s_span s /! o2)) *! (y -! e_y root).

  (* the asymmetric branch as repaired (fix 6265a26): sections right of the root, generated left to right from the
     edge shared with the left neighbour; the edge is read back from the LAST column of the previous section *)
  Definition sec_tip_right (nx : nat) (root : Edge) (s : Sec) : Edge :=
    let root_c := oabs (e_le root -! e_te root) in
    let tip_le := e_le root +! s_span s *! otan (s_sweep s) in
    mkEdge tip_le (tip_le -! root_c *! s_taper s) (e_y root +! s_span s).
  Definition sec_x_right (nx : nat) (root : Edge) (s : Sec) (i : nat) (y : T) : T :=
    let tip := sec_tip_right nx root s in
    let rx := linspace (e_le root) (e_te root) nx i in
    let tx := if oeqb (e_le tip) (e_te tip) then e_le tip else linspace (e_le tip) (e_te tip) nx i in
    rx +! ((tx -! rx) /! s_span s) *! (y -! e_y root).
  Definition sec_y_right (root : Edge) (s : Sec) (ny j : nat) : T := linspace (e_y root) (e_y root +! s_span s) ny j.
  Definition next_edge_right (nx : nat) (root : Edge) (s : Sec) : Edge :=
    let y1 := e_y root +! s_span s in
    let xle := sec_x_right nx root s 0 y1 in let xte := sec_x_right nx root s (nx - 1) y1 in
    mkEdge (oabs (xle -! xte) +! xte) xte y1.
  (* the first right section starts from the root section's inboard edge (its last column, y = 0) *)
  Definition root_right_edge (root_chord : T) : Edge := mkEdge (oabs ((root_chord +! o0) -! o0) +! o0) o0 o0.
End MeshGen.
