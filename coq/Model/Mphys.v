(* Mphys.v — models of mphys/{utils.get_src_indices, demux_surface_mesh, mux_surface_forces}.py.
   A surface list is given by its block sizes (3 * nx * ny entries per surface). *)
From Coq Require Import ZArith List Arith.
From OAS Require Import Scalar Aero.
Import ListNotations.

Section Mphys.
  Context {T : Type} {K : Ops T}.

  (* offset of surface s in the flattened vector *)
  Fixpoint offset (sizes : list nat) (s : nat) : nat :=
    match sizes, s with
    | _, O => O
    | [], _ => O
    | n :: r, S s' => n + offset r s'
    end.
  Definition total (sizes : list nat) : nat := fold_right Nat.add O sizes.
  (* src index of entry k of surface s (k = (i * ny + j) * 3 + d) *)
  Definition src_index (sizes : list nat) (s k : nat) : nat := offset sizes s + k.

  (* DemuxSurfaceMesh.compute: per-surface arrays read out of the flat vector *)
  Definition demux (sizes : list nat) (X : nat -> T) (s k : nat) : T := X (src_index sizes s k).
  (* MuxSurfaceForces.compute: the flat vector assembled from per-surface arrays *)
  Fixpoint mux (sizes : list nat) (blocks : nat -> nat -> T) (p : nat) : T :=
    match sizes with
    | [] => o0
    | n :: r => if (p <? n)%nat then blocks 0 p else mux r (fun s => blocks (S s)) (p - n)
    end.
  (* matrix-free products: fwd = same maps on perturbations; rev of demux = mux-accumulate, rev of mux = demux *)
End Mphys.
