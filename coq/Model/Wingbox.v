(* Wingbox.v — models of structures/wingbox_geometry.py (WingboxGeometry) and
   structures/section_properties_wingbox.py (SectionPropertiesWingbox).
   Both components declare their partials 'fd' / 'cs'; the models are written, like all the others, over an arbitrary
   scalar type, so that the dual-number instance gives the true derivative the framework's approximation is compared with.
   Definitions only. *)
From Coq Require Import ZArith List Arith.
From OAS Require Import Scalar.

Section WingboxSection.
  Context {T : Type} {K : Ops T}.

  (* ns = number of airfoil segments (points 0..ns) of the wing-box part of the airfoil; the four coordinate arrays are
     the user's normalised upper / lower data *)
  Variable ns : nat.
  Variables dxu dyu dxl dyl : nat -> T.
  Variable toc0 : T.                                    (* original_wingbox_airfoil_t_over_c *)
  (* per-element inputs *)
  Variables chord spar skin toc sw theta : T.

  Definition wb_yscale : T := toc /! toc0 *! sw /! chord.
  (* scaled data (np.outer with the chord, y then scaled in place) *)
  Definition XU0 i := dxu i *! chord.
  Definition YU0 i := dyu i *! chord *! wb_yscale.
  Definition XL0 i := dxl i *! chord.
  Definition YL0 i := dyl i *! chord *! wb_yscale.

  Section Stage.
    (* the quantities both halves of compute derive from "the current" coordinates *)
    Variables XU YU XL YL : nat -> T.
    Definition xud i := XU (S i) -! XU i.
    Definition xld i := XL (S i) -! XL i.
    Definition yud i := YU (S i) -! YU i.
    Definition yld i := YL (S i) -! YL i.
    Definition yua i := YU (S i) +! YU i.
    Definition yla i := YL (S i) +! YL i.
    Definition hf : T := YU 0 -! YL 0.                   (* front-spar height *)
    Definition hr : T := YU ns -! YL ns.                 (* rear-spar height *)

    Definition st_A_enc : T :=
      sumn ns (fun i => xud i *! (yua i -! skin) /! o2 +! xld i *! (oopp (yla i) -! skin) /! o2)
      -! hf *! spar /! o2 -! hr *! spar /! o2.
    Definition st_A_int : T :=
      sumn ns (fun i => xud i *! (yua i -! o2 *! skin) /! o2 +! xld i *! (oopp (yla i) -! o2 *! skin) /! o2)
      -! hf *! spar -! hr *! spar.
    Definition st_p_by_t : T :=
      sumn ns (fun i => osqrt (osq (xud i) +! osq (yud i)) /! skin +! osqrt (osq (xld i) +! osq (yld i)) /! skin)
      +! (hf -! skin) /! spar +! (hr -! skin) /! spar.
    Definition st_J : T := #4 *! osq st_A_enc /! st_p_by_t.

    (* centroid and area *)
    Definition fm_up i := (yua i /! o2 -! skin /! o2) *! skin *! xud i.
    Definition fm_low i := (yla i /! o2 +! skin /! o2) *! skin *! xld i.
    Definition hfi : T := hf -! o2 *! skin.              (* spar heights between the skins *)
    Definition hri : T := hr -! o2 *! skin.
    Definition fm_fs : T := hfi *! spar *! (YU 0 +! YL 0) /! o2.
    Definition fm_rs : T := hri *! spar *! (YU ns +! YL ns) /! o2.
    Definition area_spars : T := (hfi +! hri) *! spar.
    Definition st_A : T := sumn ns (fun i => skin *! xud i) +! sumn ns (fun i => skin *! xld i) +! area_spars.
    Definition st_centroid : T := (sumn ns fm_up +! sumn ns fm_low +! fm_fs +! fm_rs) /! st_A.

    (* second moment for upward bending: a skin segment of slope a, half-thickness offset b, length x2 *)
    Definition cube (x : T) : T := x *! x *! x.
    Definition seg_I (a b x2 : T) : T :=
      o2 *! (ofrac 1 12 *! cube a *! (osq x2 *! osq x2) +! ofrac 1 3 *! osq a *! cube x2 *! b
             +! ofrac 1 2 *! a *! osq x2 *! osq b +! ofrac 1 3 *! cube b *! x2).
    Definition IH_up i := seg_I (yud i /! xud i) ((yud i +! skin) /! o2) (xud i)
                           +! xud i *! skin *! osq (yua i /! o2 -! skin /! o2 -! st_centroid).
    Definition IH_low1 i := seg_I (oopp (yld i) /! xld i) ((oopp (yld i) +! skin) /! o2) (xld i).
    Definition IH_low2 i := xld i *! skin *! osq (oopp (yla i) /! o2 -! skin /! o2 +! st_centroid).
    Definition IH_spar (h m : T) : T := ofrac 1 12 *! spar *! cube h +! spar *! h *! osq (m /! o2 -! st_centroid).
    Definition st_Iz : T :=
      sumn ns IH_up +! sumn ns IH_low1 +! sumn ns IH_low2
      +! IH_spar hfi (YU 0 +! YL 0) +! IH_spar hri (YU ns +! YL ns).

    Definition st_Qz : T :=
      sumn ns (fun i => (yua i /! o2 -! skin /! o2 -! st_centroid) *! skin *! xud i)
      +! osq (YU 0 -! skin -! st_centroid) /! o2 *! spar
      +! osq (YU ns -! skin -! st_centroid) /! o2 *! spar.

    (* backward bending *)
    Definition xf : T := XU 0 +! spar /! o2.            (* front-spar mid line *)
    Definition xr : T := XU ns -! spar /! o2.
    Definition st_cIv : T := (hf *! spar *! xf +! hr *! spar *! xr) /! ((hf +! hr) *! spar).
    Definition wsk : T := XU ns -! XU 0 -! o2 *! spar.   (* skin width between the spars *)
    Definition st_Iy : T :=
      (ofrac 1 12 *! hf *! cube spar +! hf *! spar *! osq (st_cIv -! xf))
      +! (ofrac 1 12 *! hr *! cube spar +! hr *! spar *! osq (xr -! st_cIv))
      +! o2 *! (ofrac 1 12 *! skin *! cube wsk +! skin *! wsk *! osq (st_cIv -! (XU ns +! XU 0) /! o2)).

    (* KS-smoothed extreme fibres, rho hard-coded to 500 *)
    Definition ks_rho : T := #500.
    Definition ks_shift (f : nat -> T) (m : T) : T :=
      m +! o1 /! ks_rho *! oln (sumn (S ns) (fun i => oexp (ks_rho *! (f i -! m)))).
    Definition ks_max (f : nat -> T) : T := ks_shift f (maxn ns f).
    Definition st_htop : T := ks_max YU -! st_centroid.
    Definition st_hbottom : T := ks_max (fun i => oopp (YL i)) +! st_centroid.
    Definition st_hfront : T := st_cIv -! XU 0.
    Definition st_hrear : T := XU ns -! st_cIv.
  End Stage.

  (* the rotation by the element twist, applied between the torsion quantities and the bending quantities *)
  Definition XU1 i := ocos theta *! XU0 i +! osin theta *! YU0 i.
  Definition YU1 i := oopp (osin theta) *! XU0 i +! ocos theta *! YU0 i.
  Definition XL1 i := ocos theta *! XL0 i +! osin theta *! YL0 i.
  Definition YL1 i := oopp (osin theta) *! XL0 i +! ocos theta *! YL0 i.

  (* outputs, in the order A, A_enc, A_int, Iy, Qz, Iz, J, htop, hbottom, hfront, hrear *)
  Definition wb_A_enc := st_A_enc XU0 YU0 XL0 YL0.
  Definition wb_A_int := st_A_int XU0 YU0 XL0 YL0.
  Definition wb_J := st_J XU0 YU0 XL0 YL0.
  Definition wb_A := st_A XU1 YU1 XL1 YL1.
  Definition wb_Iz := st_Iz XU1 YU1 XL1 YL1.
  Definition wb_Qz := st_Qz XU1 YU1 XL1 YL1.
  Definition wb_Iy := st_Iy XU1 YU1 YL1.
  Definition wb_htop := st_htop XU1 YU1 XL1 YL1.
  Definition wb_hbottom := st_hbottom XU1 YU1 XL1 YL1.
  Definition wb_hfront := st_hfront XU1 YU1 YL1.
  Definition wb_hrear := st_hrear XU1 YU1 YL1.
  Definition wb_out (k : nat) : T :=
    match k with
    | 0 => wb_A | 1 => wb_A_enc | 2 => wb_A_int | 3 => wb_Iy | 4 => wb_Qz | 5 => wb_Iz | 6 => wb_J
    | 7 => wb_htop | 8 => wb_hbottom | 9 => wb_hfront | _ => wb_hrear
    end.
End WingboxSection.

Section WingboxGeometry.
  Context {T : Type} {K : Ops T}.
  Variable nx1 : nat.                                   (* index of the trailing-edge row, nx - 1 *)
  Variable mesh : nat -> nat -> nat -> T.               (* [nx, ny, 3] *)
  Variables xu0 yu0 yl0 xun yun yln : T.                (* the four corners of the wing-box airfoil data *)

  (* chordwise position of the shear centre *)
  Definition wg_w : T := (xu0 *! (yu0 -! yl0) +! xun *! (yun -! yln)) /! ((yu0 -! yl0) +! (yun -! yln)).
  Definition wg_vec j : nat -> T := fun d => mesh nx1 j d -! mesh 0 j d.
  Definition wg_chord_node j : T := nrm (wg_vec j).
  Definition wg_sw e : T := ohalf *! wg_chord_node e +! ohalf *! wg_chord_node (S e).
  Definition wg_node j : nat -> T := fun d => (o1 -! wg_w) *! mesh 0 j d +! wg_w *! mesh nx1 j d.
  Definition wg_elem e : nat -> T := vsub (wg_node (S e)) (wg_node e).
  Definition wg_cos_sweep e : T := nrm (mk3 o0 (wg_elem e 1) (wg_elem e 2)) /! nrm (wg_elem e).
  Definition wg_fem_chord e : T := wg_sw e *! wg_cos_sweep e.
  Definition wg_cos_twist j : T := nrm (mk3 (wg_vec j 0) (wg_vec j 1) o0) /! nrm (wg_vec j).
  Definition wg_theta j : T := if o1 <!? wg_cos_twist j then o0 else oacos (wg_cos_twist j).
  Definition wg_fem_twist e : T := (wg_theta e +! wg_theta (S e)) /! o2 *! wg_sw e /! wg_fem_chord e.
End WingboxGeometry.
