(* Writes.v — the storage discipline of a component: the order in which compute / compute_partials / linearize
   write into storage that persists between calls (Jacobian sub-arrays, outputs, self.* caches, and in-place
   edits of input arrays), as a small imperative language, with an executable semantics and the static analysis
   [an] that decides history independence.  The programs are generated from the source by the translator
   (Generated/WriteProgs.v).  Definitions only; soundness is proved in Real/WritesProofs.v. *)
From Coq Require Import List Arith Bool.
Import ListNotations.

Inductive mode := MSet | MUpd.           (* "x[...] = v"  vs  "x[...] op= v" (reads the previous content) *)
Inductive stmt :=
| Write (k r : nat) (m : mode) (id : nat)   (* key (storage array), region (0 = the whole array), mode, statement id *)
| Read (k r : nat)                          (* the values written later may depend on this storage (a cache) *)
| Assume (k r : nat)                        (* hand-justified fact: at this point every cell of (k, r) has been written in this call *)
| Skip
| Seq (a b : stmt)
| If (c : nat) (dyn : bool) (t e : stmt)    (* dyn = the condition depends on the inputs of the call *)
| Loop (l : nat) (body : stmt).

(* static description of keys / regions: is the text invariant under the enclosing loops?, cover facts *)
(* kinv l k / rinv l r : the key / region text does not change inside loop l;
   facts: (rs, r) = region r lies within the union of the regions rs (hand-justified, checked dynamically) *)
Record info := mkInfo { kinv : nat -> nat -> bool; rinv : nat -> nat -> bool; facts : list (list nat * nat) }.
Definition has (A : list (nat * nat)) (k r : nat) : bool := existsb (fun p => (fst p =? k) && (snd p =? r)) A.
Definition covered (I : info) (A : list (nat * nat)) (k r : nat) : bool :=
  has A k 0 || has A k r || existsb (fun f => (snd f =? r) && forallb (has A k) (fst f)) (facts I).
Definition inter (A B : list (nat * nat)) : list (nat * nat) :=
  filter (fun p => existsb (fun q => (fst p =? fst q) && (snd p =? snd q)) B) A.
Definition invariant_part (I : info) (l : nat) (A : list (nat * nat)) : list (nat * nat) :=
  filter (fun p => kinv I l (fst p) && rinv I l (snd p)) A.

(* the analysis: A = (key, region) pairs certainly assigned so far in this call (in the current loop context);
   indyn = we are below a condition that depends on the inputs.  None = the discipline is violated. *)
Fixpoint an (I : info) (A : list (nat * nat)) (indyn : bool) (s : stmt) {struct s} : option (list (nat * nat)) :=
  match s with
  | Write k r MSet _ => if indyn && negb (covered I A k r) then None else Some ((k, r) :: A)
  | Write k r MUpd _ => if covered I A k r then Some A else None
  | Read k r => if covered I A k r then Some A else None
  | Assume k r => Some ((k, r) :: A)
  | Skip => Some A
  | Seq a b => match an I A indyn a with None => None | Some A' => an I A' indyn b end
  | If _ dyn t e =>
      match an I A (indyn || dyn) t, an I A (indyn || dyn) e with
      | Some A1, Some A2 => Some (inter A1 A2)
      | _, _ => None
      end
  | Loop l body =>
      match an I (invariant_part I l A) indyn body with None => None | Some _ => Some A end
  end.
(* a list of statements, right-nested *)
Fixpoint seq (l : list stmt) : stmt := match l with [] => Skip | s :: r => Seq s (seq r) end.
Definition disciplined (I : info) (p : stmt) : bool := match an I [] false p with Some _ => true | None => false end.

(* -------- semantics: storage = concrete key -> cell -> value; everything the program does not determine is in E *)
Section Sem.
  Variable V : Type.
  Record env := mkEnv {
    ckey : nat -> list (nat * nat) -> nat;                 (* concrete array denoted by a key text in a loop context *)
    inreg : nat -> list (nat * nat) -> nat -> bool;        (* cells denoted by a region text in a loop context *)
    val : nat -> list (nat * nat) -> nat -> V;             (* value a Set statement writes to a cell *)
    upd : nat -> list (nat * nat) -> nat -> V -> V;        (* new content of a cell after an update statement *)
    cond : nat -> list (nat * nat) -> bool;
    iters : nat -> list (nat * nat) -> nat }.
  Definition store := nat -> nat -> V.
  Definition tset := nat -> nat -> bool.
  Variable E : env.

  Definition hit (k r : nat) (ctx : list (nat * nat)) (ck cell : nat) : bool := (ck =? ckey E k ctx) && inreg E r ctx cell.
  Fixpoint iter {A} (n : nat) (f : nat -> A -> A) (a : A) : A :=
    match n with O => a | S m => f m (iter m f a) end.
  Fixpoint exec (s : stmt) (ctx : list (nat * nat)) (st : store) (T : tset) {struct s} : store * tset :=
    match s with
    | Write k r MSet id =>
        (fun ck cell => if hit k r ctx ck cell then val E id ctx cell else st ck cell,
         fun ck cell => hit k r ctx ck cell || T ck cell)
    | Write k r MUpd id =>
        (fun ck cell => if hit k r ctx ck cell then upd E id ctx cell (st ck cell) else st ck cell,
         fun ck cell => hit k r ctx ck cell || T ck cell)
    | Read _ _ => (st, T)
    | Assume _ _ => (st, T)
    | Skip => (st, T)
    | Seq a b => let p := exec a ctx st T in exec b ctx (fst p) (snd p)
    | If c _ t e => if cond E c ctx then exec t ctx st T else exec e ctx st T
    | Loop l body => iter (iters E l ctx) (fun i p => exec body ((l, i) :: ctx) (fst p) (snd p)) (st, T)
    end.
  Definition run (p : stmt) (st : store) : store := fst (exec p [] st (fun _ _ => false)).
  Definition touched (p : stmt) (st : store) : tset := snd (exec p [] st (fun _ _ => false)).
End Sem.
Arguments mkEnv {V}. Arguments exec {V}. Arguments run {V}. Arguments touched {V}. Arguments hit {V}.
Arguments ckey {V}. Arguments inreg {V}. Arguments val {V}. Arguments upd {V}. Arguments cond {V}. Arguments iters {V}.
