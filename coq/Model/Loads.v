(* Loads.v — models of structures/{weight,structural_cg,wing_weight_loads,fuel_loads,fuel_vol,
   wingbox_fuel_vol_delta,compute_point_mass_loads,compute_thrust_loads,total_loads}.py
   ne = ny - 1 elements, nodes n d with n <= ne. *)
From Coq Require Import ZArith List Arith.
From OAS Require Import Scalar.

Section Loads.
  Context {T : Type} {K : Ops T}.

  Definition sym2 (sym : bool) (x : T) : T := if sym then x *! o2 else x.
  Definition symhalf (sym : bool) (x : T) : T := if sym then x /! o2 else x.

  Section Beam.
    Variable nodes : nat -> nat -> T.
    Definition delta (e d : nat) : T := nodes (S e) d -! nodes e d.
    Definition elen (e : nat) : T := osqrt (osq (delta e 0) +! osq (delta e 1) +! osq (delta e 2)).
    Definition emid (e d : nat) : T := (nodes (S e) d +! nodes e d) /! o2.
    (* horizontal projected length *)
    Definition hlen (e : nat) : T := osqrt (osq (delta e 0) +! osq (delta e 1)).

    (* ---------- Weight ---------- *)
    Definition element_mass (mrho wwr : T) (A : nat -> T) (e : nat) : T := elen e *! A e *! mrho *! wwr.
    Definition structural_mass (ne : nat) (sym : bool) (mrho wwr : T) (A : nat -> T) : T :=
      sym2 sym (sumn ne (element_mass mrho wwr A)).

    (* dense Jacobians of Weight *)
    Definition element_mass_dA (mrho wwr : T) (e e' : nat) : T :=
      iff0 (e =? e')%nat (elen e *! mrho *! wwr).
    Definition element_mass_dnodes (mrho wwr : T) (A : nat -> T) (e n d : nat) : T :=
      (iff0 (n =? S e)%nat o1 -! iff0 (n =? e)%nat o1) *! (delta e d /! elen e *! A e *! mrho *! wwr).
    Definition structural_mass_dA (ne : nat) (sym : bool) (mrho wwr : T) (e' : nat) : T :=
      sym2 sym (sumn ne (fun e => element_mass_dA mrho wwr e e')).
    Definition structural_mass_dnodes (ne : nat) (sym : bool) (mrho wwr : T) (A : nat -> T) (n d : nat) : T :=
      sym2 sym (sumn ne (fun e => element_mass_dnodes mrho wwr A e n d)).

    (* ---------- StructuralCG ---------- *)
    Definition cg_location (ne : nat) (sym : bool) (M : T) (em : nat -> T) (d : nat) : T :=
      let raw := sumn ne (fun e => emid e d *! em e) /! M in
      if sym then (if (d =? 1)%nat then o0 *! o2 else raw *! o2) else raw.

    Definition cg_symfix (sym : bool) (d : nat) (x : T) : T :=
      if sym then (if (d =? 1)%nat then o0 else x *! o2) else x.
    Definition cg_dM (ne : nat) (sym : bool) (M : T) (em : nat -> T) (d : nat) : T :=
      cg_symfix sym d (oopp (sumn ne (fun e => emid e d *! em e)) /! (M *! M)).
    Definition cg_dem (sym : bool) (M : T) (d e : nat) : T := cg_symfix sym d (emid e d /! M).
    Definition cg_dnodes (ne : nat) (sym : bool) (M : T) (em : nat -> T) (d n d' : nat) : T :=
      iff0 (d =? d')%nat
        (cg_symfix sym d ((iff0 (n <? ne)%nat (em n) +! iff0 (0 <? n)%nat (em (n - 1))) /! (o2 *! M))).

    (* ---------- distributed vertical loads with consistent end moments ---------- *)
    (* w e = weight of element e (positive down);  zm e = end-moment magnitude *)
    Definition dist_loads (ne : nat) (w zm : nat -> T) (j c : nat) : T :=
      let lo := (j <? ne)%nat in let hi := (0 <? j)%nat in
      match c with
      | 2 => iff0 lo (oopp (w j /! o2)) +! iff0 hi (oopp (w (j - 1) /! o2))
      | 3 => iff0 lo (oopp (zm j *! delta j 1 /! elen j))
             +! iff0 hi (zm (j - 1) *! delta (j - 1) 1 /! elen (j - 1))
      | 4 => iff0 lo (oopp (zm j *! delta j 0 /! elen j))
             +! iff0 hi (zm (j - 1) *! delta (j - 1) 0 /! elen (j - 1))
      | _ => o0
      end.

    (* StructureWeightLoads *)
    Definition sw_weight (g lf : T) (em : nat -> T) (e : nat) : T := em e *! lf *! g.
    Definition sw_zm (g lf : T) (em : nat -> T) (e : nat) : T := sw_weight g lf em e /! #12 *! hlen e.
    Definition struct_weight_loads (ne : nat) (g lf : T) (em : nat -> T) (j c : nat) : T :=
      dist_loads ne (sw_weight g lf em) (sw_zm g lf em) j c.

    (* FuelLoads *)
    Definition fuel_total (sym : bool) (g lf fuel_mass reserve : T) : T :=
      symhalf sym ((fuel_mass +! reserve) *! g *! lf).
    Definition fl_weight (ne : nat) (fw : T) (vols : nat -> T) (e : nat) : T := vols e *! fw /! sumn ne vols.
    Definition fl_zm (ne : nat) (fw : T) (vols : nat -> T) (e : nat) : T :=
      fl_weight ne fw vols e *! elen e /! #12 *! hlen e /! elen e.
    Definition fuel_weight_loads (ne : nat) (sym : bool) (g lf fuel_mass reserve : T) (vols : nat -> T) (j c : nat) : T :=
      let fw := fuel_total sym g lf fuel_mass reserve in
      dist_loads ne (fl_weight ne fw vols) (fl_zm ne fw vols) j c.

    (* ---------- fuel volumes ---------- *)
    Definition fuel_vols (A_int : nat -> T) (e : nat) : T := elen e *! A_int e.

    (* ---------- point masses and thrusts ---------- *)
    Definition p10 (x : T) : T := let x2 := x *! x in let x4 := x2 *! x2 in let x8 := x4 *! x4 in x8 *! x2.
    Definition pm_eps : T := ofrac 1 10000000000.
    Definition pm_inv (loc : nat -> T) (j : nat) : T := o1 /! (p10 (loc 1 -! nodes j 1) +! pm_eps).
    (* ny = S ne nodes *)
    Definition nodal_weighting (ne : nat) (loc : nat -> T) (j : nat) : T :=
      pm_inv loc j /! sumn (S ne) (pm_inv loc).
    Definition pm_dist (loc : nat -> T) (j : nat) : nat -> T := fun d => loc d -! nodes j d.
    (* force of magnitude s along direction dir, distributed by the weights *)
    Definition pm_force (ne : nat) (loc : nat -> T) (dir : nat -> T) (s : T) (j : nat) : nat -> T :=
      fun d => nodal_weighting ne loc j *! dir d *! s.
    Definition pm_loads1 (ne : nat) (loc : nat -> T) (dir : nat -> T) (s : T) (j c : nat) : T :=
      if (c <? 3)%nat then pm_force ne loc dir s j c
      else cross (pm_dist loc j) (pm_force ne loc dir s j) (c - 3).
    Definition down : nat -> T := mk3 o0 o0 (oopp o1).
    Definition fwd : nat -> T := mk3 (oopp o1) o0 o0.
    Definition loads_from_point_masses (ne npm : nat) (g lf : T) (locs : nat -> nat -> T) (masses : nat -> T) (j c : nat) : T :=
      sumn npm (fun k => pm_loads1 ne (locs k) down (g *! lf *! masses k) j c).
    Definition loads_from_thrusts (ne npm : nat) (locs : nat -> nat -> T) (thrusts : nat -> T) (j c : nat) : T :=
      sumn npm (fun k => pm_loads1 ne (locs k) fwd (thrusts k) j c).
  End Beam.

  (* WingboxFuelVolDelta (pure member; the in-place halving of its input is a C03 matter) *)
  Definition fuel_vol_delta (ne : nat) (sym : bool) (fuelburn reserve density : T) (vols : nat -> T) : T :=
    sumn ne vols -! (symhalf sym fuelburn +! symhalf sym reserve) /! density.

  (* TotalLoads *)
  Definition total_loads (sw fl pm : bool) (loads swl fwl lpm lth : nat -> nat -> T) (j c : nat) : T :=
    let t0 := loads j c in
    let t1 := if sw then t0 +! swl j c else t0 in
    let t2 := if fl then t1 +! fwl j c else t1 in
    if pm then t2 +! lpm j c +! lth j c else t2.
End Loads.
