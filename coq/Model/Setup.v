(* Setup.v — the decision logic of the set-up checks:
   geometry/utils.py generate_mesh, utils/check_surface_dict.py, aerodynamics/vortex_mesh.py setup,
   structures/struct_groups.py / integration/aerostruct_groups.py / structures/spatial_beam_functionals.py
   (fem_model_type, thickness distributions), geometry/geometry_group.py build_sections,
   geometry/geometry_mesh_gen.py generate_mesh (root section).  Executable; no proofs here. *)
From Coq Require Import String List Bool Arith ZArith.
From OAS Require Import SetupKeys.
Import ListNotations.
Open Scope string_scope.

Inductive exn := ValueError | NameError | PlainException.
Inductive outcome := Accepted | Raised (e : exn).
Inductive warning := KeyNotImplemented (k : string) | KeyMissing (k : string) | CRMIgnoresSpanChord | SurfaceKeyNotSupported (k : string).

Definition mem (k : string) (l : list string) : bool := existsb (String.eqb k) l.

(* does s contain "CRM" ? *)
Fixpoint is_prefix (p s : string) : bool :=
  match p, s with
  | EmptyString, _ => true
  | String a p', String b s' => Ascii.eqb a b && is_prefix p' s'
  | _, _ => false
  end.
Fixpoint contains (p s : string) : bool :=
  is_prefix p s || match s with EmptyString => false | String _ s' => contains p s' end.

(* ---------- generate_mesh(input_dict): user keys (in dict order), effective num_y and wing_type ---------- *)
Definition gm_warnings (user_keys : list string) (wing_type : string) : list warning :=
  map KeyNotImplemented (filter (fun k => negb (mem k gen_mesh_dict_keys)) user_keys)
  ++ map KeyMissing (filter (fun k => negb (mem k user_keys)) gen_mesh_dict_important)
  ++ (if String.eqb wing_type "CRM" && (mem "span" user_keys || mem "root_chord" user_keys) then [CRMIgnoresSpanChord] else []).
Definition gm_outcome (num_y : Z) (wing_type : string) : outcome :=
  if Z.even num_y then Raised ValueError
  else if String.eqb wing_type "rect" then Accepted
  else if contains "CRM" wing_type then Accepted
  else Raised NameError.

(* ---------- check_surface_dict_keys ---------- *)
Definition surface_warnings (keys : list string) : list warning :=
  map SurfaceKeyNotSupported (filter (fun k => negb (mem k gen_surface_keys_implemented)) keys).

(* ---------- VortexMesh.setup: per surface (symmetry, groundplane) in order; the first offender raises ---------- *)
Fixpoint vortex_mesh_outcome (surfaces : list (bool * bool)) : outcome :=
  match surfaces with
  | [] => Accepted
  | (sym, ground) :: r => if negb sym && ground then Raised ValueError else vortex_mesh_outcome r
  end.

(* ---------- structural model selection (SpatialBeamAlone / AerostructGeometry) ---------- *)
Definition struct_outcome (fem_model_type : string) (has_skin_cp has_spar_cp : bool) : outcome :=
  if String.eqb fem_model_type "tube" then Accepted
  else if String.eqb fem_model_type "wingbox" then
    (if has_skin_cp && has_spar_cp then Accepted else if has_skin_cp || has_spar_cp then Raised NameError else Accepted)
  else Raised NameError.
(* the performance groups only look at the model type *)
Definition perf_outcome (fem_model_type : string) : outcome :=
  if String.eqb fem_model_type "tube" || String.eqb fem_model_type "wingbox" then Accepted else Raised NameError.

(* ---------- multi-section surfaces: build_sections ---------- *)
Definition sections_outcome (num_sections : nat) (gen_meshes : bool) (l_ny l_taper l_span l_sweep l_meshes l_names : nat) : outcome :=
  if gen_meshes then
    (if negb (Nat.eqb l_ny num_sections) || negb (Nat.eqb l_taper num_sections) || negb (Nat.eqb l_span num_sections) || negb (Nat.eqb l_sweep num_sections) then Raised ValueError
     else if negb (Nat.eqb l_names num_sections) then Raised ValueError else Accepted)
  else
    (if negb (Nat.eqb l_meshes num_sections) then Raised ValueError
     else if negb (Nat.eqb l_names num_sections) then Raised ValueError else Accepted).
(* geometry_mesh_gen.generate_mesh: an asymmetric multi-section surface must name its root section *)
Definition root_section_outcome (symmetry : bool) (num_sections : nat) (has_root_section : bool) : outcome :=
  if symmetry || (Nat.eqb num_sections 1) then Accepted else if has_root_section then Accepted else Raised PlainException.

(* ---------- executable comparison with what the implementation did (correspondence side) ---------- *)
Definition exn_code (o : outcome) : nat := match o with Accepted => 0 | Raised ValueError => 1 | Raised NameError => 2 | Raised PlainException => 3 end.
Definition warning_eqb (a b : warning) : bool :=
  match a, b with
  | KeyNotImplemented x, KeyNotImplemented y => String.eqb x y
  | KeyMissing x, KeyMissing y => String.eqb x y
  | CRMIgnoresSpanChord, CRMIgnoresSpanChord => true
  | SurfaceKeyNotSupported x, SurfaceKeyNotSupported y => String.eqb x y
  | _, _ => false
  end.
Fixpoint warnings_eqb (a b : list warning) : bool :=
  match a, b with
  | [], [] => true
  | x :: r, y :: s => warning_eqb x y && warnings_eqb r s
  | _, _ => false
  end.
Definition agree (model_outcome : outcome) (model_warnings : list warning) (impl_code : nat) (impl_warnings : list warning) : bool :=
  Nat.eqb (exn_code model_outcome) impl_code && warnings_eqb model_warnings impl_warnings.
