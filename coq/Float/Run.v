(* Run.v — helpers for executing the model on literal float arrays (correspondence side only). *)
From Coq Require Import ZArith List PrimFloat.
From OAS Require Import Scalar Fops.
Import ListNotations.
Open Scope float_scope.

(* flat (C-order) list -> indexed function *)
Definition a1 (l : list float) (i : nat) : float := nth i l 0.
Definition a2 (n2 : nat) (l : list float) (i j : nat) : float := nth (i * n2 + j) l 0.
Definition a3 (n2 n3 : nat) (l : list float) (i j k : nat) : float := nth ((i * n2 + j) * n3 + k) l 0.
Definition a4 (n2 n3 n4 : nat) (l : list float) (i j k m : nat) : float :=
  nth (((i * n2 + j) * n3 + k) * n4 + m) l 0.

(* indexed function -> flat (C-order) list *)
Definition t1 (n1 : nat) (f : nat -> float) : list float := map f (seq 0 n1).
Definition t2 (n1 n2 : nat) (f : nat -> nat -> float) : list float :=
  flat_map (fun i => map (f i) (seq 0 n2)) (seq 0 n1).
Definition t3 (n1 n2 n3 : nat) (f : nat -> nat -> nat -> float) : list float :=
  flat_map (fun i => t2 n2 n3 (f i)) (seq 0 n1).
Definition t4 (n1 n2 n3 n4 : nat) (f : nat -> nat -> nat -> nat -> float) : list float :=
  flat_map (fun i => t3 n2 n3 n4 (f i)) (seq 0 n1).
Definition t5 (n1 n2 n3 n4 n5 : nat) (f : nat -> nat -> nat -> nat -> nat -> float) : list float :=
  flat_map (fun i => t4 n2 n3 n4 n5 (f i)) (seq 0 n1).
Definition t6 (n1 n2 n3 n4 n5 n6 : nat) (f : nat -> nat -> nat -> nat -> nat -> nat -> float) : list float :=
  flat_map (fun i => t5 n2 n3 n4 n5 n6 (f i)) (seq 0 n1).

(* relative error with the default floor *)
Definition re (a b : list float) : float := relerr 0x1p-200 a b.
