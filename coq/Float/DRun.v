(* DRun.v — executing the dual-number instance of a model on literal float inputs: the dense Jacobian of
   the model, one column per (flattened) input coordinate g.  Correspondence side only. *)
From Coq Require Import ZArith List PrimFloat Arith.
From OAS Require Import Scalar Fops Run Dual.
Import ListNotations.
Open Scope float_scope.

Notation fdual := (dual float).
Notation FD := (@Dops float Fops).
Definition seedf (b : bool) : float := if b then 1 else 0.
(* differentiated inputs: value from the literal, tangent 1 iff (offset + flat index) = g *)
Definition sd0 (x : float) (off g : nat) : fdual := (x, seedf (off =? g)%nat).
Definition sd1 (l : list float) (off g : nat) (i : nat) : fdual := (nth i l 0, seedf (off + i =? g)%nat).
Definition sd2 (n2 : nat) (l : list float) (off g : nat) (i j : nat) : fdual := sd1 l off g (i * n2 + j).
Definition sd3 (n2 n3 : nat) (l : list float) (off g : nat) (i j k : nat) : fdual := sd1 l off g ((i * n2 + j) * n3 + k).
Definition sd4 (n2 n3 n4 : nat) (l : list float) (off g : nat) (i j k m : nat) : fdual :=
  sd1 l off g (((i * n2 + j) * n3 + k) * n4 + m).
(* parameters (not differentiated) *)
Definition pd0 (x : float) : fdual := (x, 0).
Definition pd1 (l : list float) (i : nat) : fdual := (nth i l 0, 0).
Definition pd2 (n2 : nat) (l : list float) (i j : nat) : fdual := pd1 l (i * n2 + j).
Definition pd3 (n2 n3 : nat) (l : list float) (i j k : nat) : fdual := pd1 l ((i * n2 + j) * n3 + k).

(* polymorphic tabulation *)
Definition T1 {A} (n1 : nat) (f : nat -> A) : list A := map f (seq 0 n1).
Definition T2 {A} (n1 n2 : nat) (f : nat -> nat -> A) : list A := flat_map (fun i => map (f i) (seq 0 n2)) (seq 0 n1).
Definition T3 {A} (n1 n2 n3 : nat) (f : nat -> nat -> nat -> A) : list A := flat_map (fun i => T2 n2 n3 (f i)) (seq 0 n1).
Definition T4 {A} (n1 n2 n3 n4 : nat) (f : nat -> nat -> nat -> nat -> A) : list A := flat_map (fun i => T3 n2 n3 n4 (f i)) (seq 0 n1).
(* memoised arrays of duals (so that shared sub-results are evaluated once) *)
Definition M1 (n1 : nat) (f : nat -> fdual) : nat -> fdual := let l := T1 n1 f in fun i => nth i l (0, 0).
Definition M2 (n1 n2 : nat) (f : nat -> nat -> fdual) : nat -> nat -> fdual :=
  let l := T2 n1 n2 f in fun i j => nth (i * n2 + j) l (0, 0).
Definition M3 (n1 n2 n3 : nat) (f : nat -> nat -> nat -> fdual) : nat -> nat -> nat -> fdual :=
  let l := T3 n1 n2 n3 f in fun i j k => nth ((i * n2 + j) * n3 + k) l (0, 0).

(* the Jacobian, column by column: for every input coordinate g < nin, the tangents of all outputs *)
Definition jac (nin : nat) (out : nat -> list fdual) : list float :=
  flat_map (fun g => map snd (out g)) (seq 0 nin).
Definition vals (out : nat -> list fdual) : list float := map fst (out 0%nat).

(* per-input-variable comparison of two column-major Jacobians: block k covers lens[k] entries; each block is
   measured against its own magnitude (a small column next to large ones is still checked to full relative
   accuracy), with a floor far below any entry of interest *)
Definition relerr2 (floor : float) (a b : list float) : float :=
  maxabsdiff a b / fmax floor (fmax (maxabs a) (maxabs b)).
Fixpoint blockerrs_go (floor : float) (lens : list nat) (a b : list float) : list float :=
  match lens with
  | [] => []
  | n :: r => relerr2 floor (firstn n a) (firstn n b) :: blockerrs_go floor r (skipn n a) (skipn n b)
  end.
Definition blockerrs (lens : list nat) (a b : list float) : list float :=
  (if Nat.eqb (length a) (length b) then 0 else infinity)
  :: blockerrs_go (0x1p-46 * fmax (maxabs a) (maxabs b) + 0x1p-200) lens a b.

(* columns scaled by the magnitude of the corresponding input (sensitivities to relative perturbations), so that
   differently scaled inputs (Reynolds number 1e7, Young's modulus 1e11, twist 1e-2) are compared alike *)
Definition jac_scaled (nin : nat) (scales : list float) (out : nat -> list fdual) : list float :=
  flat_map (fun g => let s := nth g scales 1 in map (fun d => snd d * s) (out g)) (seq 0 nin).
(* error of block k = max |a - b| over the block / (magnitude of the block + 2^-17 of the magnitude of the whole
   Jacobian): a block that is wholly wrong is reported unless it is 13 orders of magnitude below the largest
   sensitivity, while rounding noise (1e-16 of the whole) in an analytically zero block stays below 1e-11 *)
Definition relerr3 (add : float) (a b : list float) : float :=
  maxabsdiff a b / (fmax (maxabs a) (maxabs b) + add).
Fixpoint blockerrs3_go (add : float) (lens : list nat) (a b : list float) : list float :=
  match lens with
  | [] => []
  | n :: r => relerr3 add (firstn n a) (firstn n b) :: blockerrs3_go add r (skipn n a) (skipn n b)
  end.
Definition blockerrs_s (lens : list nat) (a b : list float) : list float :=
  (if Nat.eqb (length a) (length b) then 0 else infinity)
  :: blockerrs3_go (0x1p-17 * fmax (maxabs a) (maxabs b) + 0x1p-200) lens a b.
