(* Fops.v — the binary64 instance of Ops, used only to *execute* the model with vm_compute on the
   implementation's inputs.  The elementary functions are ours (range reduction + Taylor/Horner),
   accurate to ~1e-15 relative; they are self-tested against Python's math module on every run
   (harness/selftest.py).  Nothing here is used in any theorem. *)
From Coq Require Import ZArith Uint63 PrimFloat FloatOps List.
From OAS Require Import Scalar.
Import ListNotations.
Open Scope float_scope.

Definition fofZ (z : Z) : float :=
  match z with
  | Z0 => 0
  | Zpos _ => of_uint63 (Uint63.of_Z z)
  | Zneg p => - of_uint63 (Uint63.of_Z (Zpos p))
  end.

(* nearest integer of a float of moderate size, as a Z *)
Definition fmagic := 0x1.8p52.
Definition fround (x : float) : float := (x + fmagic) - fmagic.
Definition fpos_to_Z (y : float) : Z :=
  match Prim2SF y with
  | SpecFloat.S754_finite _ m e => Z.shiftl (Zpos m) e
  | _ => 0%Z
  end.
Definition fround_Z (x : float) : Z :=
  let y := fround x in
  if y <? 0 then Z.opp (fpos_to_Z (- y)) else fpos_to_Z y.

(* Horner evaluation  c0 + z (c1 + z (c2 + ...)) *)
Fixpoint horner (cs : list float) (z : float) : float :=
  match cs with
  | [] => 0
  | c :: r => c + z * horner r z
  end.

Definition ln2_hi := 0x1.62e42fee00000p-1.
Definition ln2_lo := 0x1.a39ef35793c76p-33.
Definition inv_ln2 := 0x1.71547652b82fep+0.

Definition inv_facts : list float :=
  [1; 1; 1/2; 1/6; 1/24; 1/120; 1/720; 1/5040; 1/40320; 1/362880; 1/3628800; 1/39916800;
   1/479001600; 1/6227020800; 1/87178291200; 1/1307674368000; 1/20922789888000].

Definition fexp (x : float) : float :=
  if x <? -745 then 0 else if 710 <? x then infinity else
  let kf := fround (x * inv_ln2) in
  let k := fround_Z (x * inv_ln2) in
  let r := (x - kf * ln2_hi) - kf * ln2_lo in
  Z.ldexp (horner inv_facts r) k.

Definition sqrt_half := 0x1.6a09e667f3bcdp-1.
Definition ln_coefs : list float :=
  [1; 1/3; 1/5; 1/7; 1/9; 1/11; 1/13; 1/15; 1/17; 1/19; 1/21; 1/23; 1/25; 1/27].

Definition fln (x : float) : float :=
  if x <? 0 then nan else if x =? 0 then neg_infinity else
  let '(m0, e0) := Z.frexp x in
  let '(m, e) := if m0 <? sqrt_half then (m0 * 2, (e0 - 1)%Z) else (m0, e0) in
  let f := m - 1 in
  let s := f / (2 + f) in
  let z := s * s in
  let lm := 2 * s * horner ln_coefs z in
  let ef := fofZ e in
  ef * ln2_hi + (lm + ef * ln2_lo).

Definition pio2_1 := 0x1.921fb54400000p+0.
Definition pio2_1t := 0x1.0b4611a626331p-34.
Definition two_over_pi := 0x1.45f306dc9c883p-1.
Definition fpi := 0x1.921fb54442d18p+1.
Definition fpio2 := 0x1.921fb54442d18p+0.

Definition sin_coefs : list float :=
  [1; -1/6; 1/120; -1/5040; 1/362880; -1/39916800; 1/6227020800; -1/1307674368000;
   1/355687428096000; -1/121645100408832000; 1/51090942171709440000].
Definition cos_coefs : list float :=
  [1; -1/2; 1/24; -1/720; 1/40320; -1/3628800; 1/479001600; -1/87178291200;
   1/20922789888000; -1/6402373705728000; 1/2432902008176640000].

Definition sin_r (r : float) := r * horner sin_coefs (r * r).
Definition cos_r (r : float) := horner cos_coefs (r * r).

Definition sincos (x : float) : float * float :=
  let kf := fround (x * two_over_pi) in
  let k := fround_Z (x * two_over_pi) in
  let r := (x - kf * pio2_1) - kf * pio2_1t in
  let s := sin_r r in let c := cos_r r in
  match Z.modulo k 4 with
  | 0%Z => (s, c)
  | 1%Z => (c, - s)
  | 2%Z => (- s, - c)
  | _ => (- c, s)
  end.
Definition fsin x := fst (sincos x).
Definition fcos x := snd (sincos x).
Definition ftan x := let '(s, c) := sincos x in s / c.

Definition atan_coefs : list float :=
  [1; -1/3; 1/5; -1/7; 1/9; -1/11; 1/13; -1/15; 1/17; -1/19; 1/21; -1/23; 1/25; -1/27; 1/29].
Definition atan_small (x : float) := x * horner atan_coefs (x * x).
Definition atan_halve (x : float) := x / (1 + sqrt (1 + x * x)).
Definition atan_pos (x : float) : float :=   (* x >= 0 *)
  if 1 <? x then fpio2 - 4 * atan_small (atan_halve (atan_halve (1 / x)))
  else 4 * atan_small (atan_halve (atan_halve x)).
Definition fatan (x : float) : float :=
  if x <? 0 then - atan_pos (- x) else atan_pos x.
Definition facos (x : float) : float :=
  if x <=? -1 then fpi else 2 * fatan (sqrt ((1 - x) / (1 + x))).

Definition fpow (x y : float) : float :=
  if x =? 0 then (if y =? 0 then 1 else 0) else fexp (y * fln x).

#[export] Instance Fops : Ops float :=
  mkOps float 0 1 add sub mul div opp abs sqrt fexp fln fsin fcos ftan fatan facos fpow
        fofZ fpi ltb leb eqb.

(* ---- tolerant comparison helpers used by the correspondence files ---- *)
Definition fmax (a b : float) := if a <? b then b else a.
Fixpoint maxabs (l : list float) : float :=
  match l with [] => 0 | x :: r => fmax (abs x) (maxabs r) end.
Fixpoint maxabsdiff (a b : list float) : float :=
  match a, b with
  | x :: r, y :: s => fmax (abs (x - y)) (maxabsdiff r s)
  | [], [] => 0
  | _, _ => infinity                      (* length mismatch *)
  end.
(* nan-aware: any nan on either side gives infinity *)
Fixpoint hasnan (l : list float) : bool :=
  match l with [] => false | x :: r => if x =? x then hasnan r else true end.
(* relative distance of two arrays: max|a-b| / max(|a|,|b|,floor) *)
Definition relerr (floor : float) (a b : list float) : float :=
  if hasnan a then infinity else if hasnan b then infinity else
  maxabsdiff a b / fmax floor (fmax (maxabs a) (maxabs b)).
